"""Path-wise symbolic executor over the real AST of aioswitcher (DESIGN.md section 2).

Exploration is by re-execution with a decision trace; a branch is first tested for being forced by the
path condition and only then is the trace consulted.  Every value that does not depend on a solver
variable is a real Python object operated on by CPython."""
import ast
import enum
import itertools
import z3

from .sym import (Rat, isz, is_symint, is_symreal, is_symbool, zi, zb, simp, as_const, as_bool_const, fresh_name,
                  Elems, Gen, Seq, seq_eq, seq_concat, SymEnum, Obj, PyList, PyDict, PySet, ExcVal,
                  exc_isinstance, EXC_BASES)
from .loader import FuncInfo, ClassInfo, ModuleInfo


class Unsupported(Exception):
    """the construct is outside the executor's subset: the unit is reported out-of-subset, never a violation"""


class PyExc(Exception):
    def __init__(self, exc):
        super().__init__(repr(exc))
        self.exc = exc


class ReturnEx(Exception):
    def __init__(self, v):
        self.v = v


class BreakEx(Exception):
    pass


class ContinueEx(Exception):
    pass


class Infeasible(Exception):
    """the current path condition became unsatisfiable (e.g. an assumed contract clause contradicts it)"""


class PathLimit(Exception):
    pass


class Builtin:
    def __init__(self, name, fn, pytype=None):
        self.name = name
        self.fn = fn
        self.pytype = pytype

    def __repr__(self):
        return f"<builtin {self.name}>"


class ExcClass:
    """an exception class usable in raise / except"""
    def __init__(self, name):
        self.name = name

    def __repr__(self):
        return f"<exc {self.name}>"


class BoundMethod:
    def __init__(self, fn, self_obj):
        self.fn = fn
        self.self_obj = self_obj


class Closure:
    """lambda or nested def with its defining environment"""
    def __init__(self, node, env, frame):
        self.node = node
        self.env = env
        self.frame = frame


class Partial:
    def __init__(self, fn, args, kwargs):
        self.fn = fn
        self.args = list(args)
        self.kwargs = dict(kwargs)


class EnvObj:
    """an object of the environment (asyncio stream / transport / loop / logger ...) with a model"""
    def __init__(self, kind, **state):
        self.kind = kind
        self.state = state

    def __repr__(self):
        return f"<env {self.kind} {self.state}>"


class HostChoice:
    """a module-level value that depends on the host the library runs on: the code must be right for each of the values"""
    def __init__(self, values):
        self.values = list(values)


class ExtModule:
    """an imported stdlib module; attributes resolve to library models"""
    def __init__(self, dotted):
        self.dotted = dotted


class SuperProxy:
    def __init__(self, obj, after):
        self.obj = obj
        self.after = after


class Frame:
    def __init__(self, module, func=None, cls=None, self_obj=None):
        self.module = module
        self.func = func
        self.cls = cls
        self.self_obj = self_obj


class Ghost:
    def __init__(self):
        self.writes = []        # bytes values written to the stream writer, in order
        self.reads = 0          # number of replies consumed
        self.clock_reads = []   # symbols returned by clock reads
        self.callback_calls = []
        self.warnings = []
        self.heap_writes = []   # (obj, attr) for objects that existed before the operation
        self.events = []        # generic ordered event log (kind, payload)
        self.module_writes = []  # writes to module-level names / attributes of foreign objects


class Ctx:
    """one path: decision trace, path condition, ghost state"""
    def __init__(self, trace=None, timeout_ms=5000):
        self.trace = trace if trace is not None else []
        self.pos = 0
        self.pc = []
        self.solver = z3.Solver()
        self.solver.set("timeout", timeout_ms)
        self.inexact = False
        self.ghost = Ghost()
        self.inputs = {}        # name -> concretiser description (filled by drivers)
        self.notes = []
        self.branch_checks = 0
        self.used_models = set()   # library models / axioms used on this path (trusted-base scan)
        self.used_contracts = set()
        self.depth = 0

    # -- path condition
    def assume(self, f, quantified=False):
        if f is True:
            return
        if f is False:
            raise Infeasible()
        c = as_bool_const(f)
        if c is True:
            return
        if c is False:
            raise Infeasible()
        if quantified:
            self.inexact = True
        self.pc.append(f)
        self.solver.add(f)

    def fact(self, f):
        """range fact about a freshly created symbol (always consistent)"""
        c = as_bool_const(f)
        if c is True:
            return
        self.pc.append(f)
        self.solver.add(f)

    def check(self, *extra):
        self.branch_checks += 1
        r = self.solver.check(*extra)
        return r

    def feasible(self, f):
        c = as_bool_const(f)
        if c is not None:
            return c
        return self.check(f) != z3.unsat

    def entails(self, f):
        c = as_bool_const(f)
        if c is not None:
            return c
        return self.check(z3.Not(f)) == z3.unsat

    # -- decisions
    def _decide(self, n):
        if self.pos < len(self.trace):
            d = self.trace[self.pos][0]
        else:
            d = 0
            self.trace.append([0, n])
        self.pos += 1
        return d

    def branch(self, cond):
        """Python truth of cond on this path (forks when both outcomes are feasible)"""
        if isinstance(cond, bool):
            return cond
        c = as_bool_const(cond)
        if c is not None:
            return c
        cond = simp(cond)
        t = self.check(cond) != z3.unsat
        f = self.check(z3.Not(cond)) != z3.unsat
        if t and not f:
            return True      # forced: nothing to add, pc already implies it
        if f and not t:
            return False
        if not t and not f:
            raise Infeasible()
        d = self._decide(2)
        if d == 0:
            self.assume(cond)
            return True
        self.assume(z3.Not(cond))
        return False

    def choose(self, conds):
        """conds: mutually exclusive, jointly exhaustive conditions; returns the index taken on this path"""
        feas = [i for i, c in enumerate(conds) if self.feasible(c)]
        if not feas:
            raise Infeasible()
        if len(feas) == 1:
            self.assume(conds[feas[0]])
            return feas[0]
        d = self._decide(len(feas))
        self.assume(conds[feas[d]])
        return feas[d]

    def fork(self, n):
        """unconditional n-way choice (environment non-determinism)"""
        if n == 1:
            return 0
        return self._decide(n)

    def concrete_int(self, t):
        """python int if t is forced to a single value by the path condition, else None"""
        c = as_const(t)
        if c is not None:
            return c
        if self.check() != z3.sat:
            return None
        m = self.solver.model()
        v = m.eval(t, model_completion=True)
        if not z3.is_int_value(v):
            return None
        k = v.as_long()
        if self.check(t != k) == z3.unsat:
            return k
        return None

    def fresh_int(self, prefix, lo=None, hi=None):
        v = z3.Int(fresh_name(prefix))
        if lo is not None:
            self.fact(v >= lo)
        if hi is not None:
            self.fact(v <= hi)
        return v


def next_trace(trace):
    """DFS successor of a completed decision trace, or None"""
    t = [list(x) for x in trace]
    while t:
        if t[-1][0] + 1 < t[-1][1]:
            t[-1][0] += 1
            return t
        t.pop()
    return None


def explore(run, max_paths=20000, timeout_ms=5000):
    """run(ctx) -> result; yields (ctx, result) for every feasible path"""
    trace = []
    n = 0
    while trace is not None:
        ctx = Ctx([list(x) for x in trace], timeout_ms)
        try:
            res = run(ctx)
            ok = True
        except Infeasible:
            ok = False
        used = ctx.trace[:ctx.pos] if ctx.pos <= len(ctx.trace) else ctx.trace
        if ok:
            n += 1
            if n > max_paths:
                raise PathLimit(f"more than {max_paths} paths")
            yield ctx, res
        trace = next_trace(used)


# ================================================================================================
class Interp:
    def __init__(self, program, contracts=None, inline_all=False):
        self.P = program
        self.contracts = contracts or {}
        self.inline_all = inline_all
        self.ext_models = {}
        self.builtins = {}
        self.method_models = []
        self._enum_cache = {}
        self._modconst_cache = {}
        from . import models
        models.install(self)
        self.spec_prims = {}
        from . import specprims
        specprims.install(self)
        self.no_contract_for = set()   # qualnames forced inline (e.g. while proving that very function)
        self.call_hook = None          # optional callable(interp, finfo, args, kwargs, ctx) -> (handled, value)

    # ---------------------------------------------------------------- name resolution
    def lookup(self, name, env, fr, ctx):
        if name in env:
            return env[name]
        r = self.P.resolve_static(fr.module, name)
        if r is not None:
            return self.static_value(r, ctx)
        if name in self.builtins:
            return self.builtins[name]
        if name == "__name__":
            return fr.module.name
        if name in EXC_BASES:
            return ExcClass(name)
        raise Unsupported(f"unknown name {name} in {fr.module.name}")

    def static_value(self, r, ctx):
        if isinstance(r, (FuncInfo, ModuleInfo)):
            return r
        if isinstance(r, ClassInfo):
            e = self.real_enum(r)
            if e is not None:
                return e
            for b in r.base_exprs:
                bn = ast.unparse(b)
                if bn in EXC_BASES:
                    EXC_BASES.setdefault(r.name, bn)
                    return ExcClass(r.name)
            return r
        if isinstance(r, tuple):
            if r[0] == "real":
                return self.lift_const(r[1])
            if r[0] == "assign":
                _, mod, node = r
                key = (mod.name, id(node))
                if key not in self._modconst_cache:
                    c2 = Ctx()
                    v = self.ev(node, {}, Frame(mod), c2)
                    if isinstance(v, (PyList, PyDict, PySet)):
                        v.module_level = mod.name
                    self._modconst_cache[key] = v
                v = self._modconst_cache[key]
                if isinstance(v, (PyList, PyDict, PySet)):
                    # a module-level mutable object: give every path its own copy and watch mutations (frame condition)
                    import copy
                    pc = getattr(ctx, "_modcopies", None)
                    if pc is None:
                        pc = {}
                        ctx._modcopies = pc
                    if key not in pc:
                        pc[key] = copy.copy(v)
                        if isinstance(v, PyList):
                            pc[key].items = list(v.items)
                        elif isinstance(v, PyDict):
                            pc[key].d = dict(v.d)
                        else:
                            pc[key].s = set(v.s)
                        pc[key].module_level = mod.name
                    return pc[key]
                return v
            if r[0] == "ext":
                dotted = r[1]
                if dotted in self.ext_models:
                    v = self.ext_models[dotted]
                    if isinstance(v, HostChoice):
                        # a fact about the host (byte order ...): every admissible value is explored, once per path
                        hc = getattr(ctx, "_hostchoices", None)
                        if hc is None:
                            hc = {}
                            ctx._hostchoices = hc
                        if dotted not in hc:
                            hc[dotted] = v.values[ctx.fork(len(v.values))]
                            ctx.used_models.add(f"{dotted}: any of {v.values} (host dependent)")
                            ctx.inputs["host:" + dotted] = hc[dotted]
                        return hc[dotted]
                    return v
                if dotted in EXC_BASES:
                    return ExcClass(dotted)
                if any(k.startswith(dotted + ".") for k in self.ext_models):
                    return ExtModule(dotted)
                raise Unsupported(f"no model for external name {dotted}")
        raise Unsupported(f"cannot resolve {r}")

    def real_enum(self, cinfo):
        """Enum classes defined in modules that are not executed wholesale (api.Command): built from the ClassDef"""
        if cinfo.qualname in self._enum_cache:
            return self._enum_cache[cinfo.qualname]
        res = None
        if any(isinstance(b, ast.Name) and b.id == "Enum" for b in cinfo.base_exprs):
            node = ast.Module(body=[cinfo.node], type_ignores=[])
            ns = {"Enum": enum.Enum, "unique": enum.unique, "auto": enum.auto, "final": lambda c: c, "__name__": "pyvc_real_enum"}
            exec(compile(node, cinfo.module.path, "exec"), ns)
            res = ns[cinfo.name]
        self._enum_cache[cinfo.qualname] = res
        return res

    def lift_const(self, v):
        if isinstance(v, list):
            return PyList([self.lift_const(x) for x in v])
        if isinstance(v, dict):
            return PyDict({k: self.lift_const(x) for k, x in v.items()})
        if isinstance(v, set):
            return PySet(v)
        return v

    # ---------------------------------------------------------------- statements
    def block(self, stmts, env, fr, ctx):
        for st in stmts:
            self.stmt(st, env, fr, ctx)

    def stmt(self, st, env, fr, ctx):
        m = getattr(self, "st_" + type(st).__name__, None)
        if m is None:
            raise Unsupported(f"statement {type(st).__name__} at {fr.module.name}:{st.lineno}")
        return m(st, env, fr, ctx)

    def st_Expr(self, st, env, fr, ctx):
        if isinstance(st.value, ast.Constant):
            return
        self.ev(st.value, env, fr, ctx)

    def st_Pass(self, st, env, fr, ctx):
        return

    def st_Assign(self, st, env, fr, ctx):
        v = self.ev(st.value, env, fr, ctx)
        for t in st.targets:
            self.assign(t, v, env, fr, ctx)

    def st_AnnAssign(self, st, env, fr, ctx):
        if st.value is None:
            return
        v = self.ev(st.value, env, fr, ctx)
        self.assign(st.target, v, env, fr, ctx)

    def st_AugAssign(self, st, env, fr, ctx):
        cur = self.ev(_load(st.target), env, fr, ctx)
        rhs = self.ev(st.value, env, fr, ctx)
        v = self.binop(st.op, cur, rhs, ctx)
        self.assign(st.target, v, env, fr, ctx)

    def assign(self, t, v, env, fr, ctx):
        if isinstance(t, ast.Name):
            if is_symint(v) and _term_size(v, 40) >= 40:
                # name a large integer term by a fresh variable (definitional equality): keeps later formulas small
                nv = z3.Int(fresh_name("v_" + t.id))
                ctx.fact(nv == v)
                v = nv
            env[t.id] = v
        elif isinstance(t, (ast.Tuple, ast.List)):
            items = self.iterate(v, ctx)
            if len(items) != len(t.elts):
                raise PyExc(ExcVal("ValueError", ("unpack",)))
            for n, x in zip(t.elts, items):
                self.assign(n, x, env, fr, ctx)
        elif isinstance(t, ast.Attribute):
            o = self.ev(t.value, env, fr, ctx)
            self.setattr(o, t.attr, v, ctx)
        elif isinstance(t, ast.Subscript):
            o = self.ev(t.value, env, fr, ctx)
            k = self.ev(t.slice, env, fr, ctx)
            self.setitem(o, k, v, ctx)
        else:
            raise Unsupported("assignment target " + ast.dump(t)[:60])

    def setattr(self, o, attr, v, ctx):
        if isinstance(o, Obj):
            if o.preexisting:
                ctx.ghost.heap_writes.append((o, attr))
            o.attrs[attr] = v
            return
        if isinstance(o, (ModuleInfo, ClassInfo)) or isinstance(o, type):
            ctx.ghost.module_writes.append((repr(o), attr))
            raise Unsupported(f"assignment to attribute {attr} of {o}")
        if isinstance(o, EnvObj):
            ctx.ghost.module_writes.append((repr(o), attr))
            o.state[attr] = v
            return
        raise Unsupported(f"setattr on {type(o).__name__}")

    def setitem(self, o, k, v, ctx):
        if getattr(o, "module_level", None):
            ctx.ghost.module_writes.append((o.module_level, "item store into a module-level object"))
        if isinstance(o, PyDict):
            if getattr(o, "preexisting", False):
                ctx.ghost.heap_writes.append((o, "item store"))
            if isinstance(k, Seq) and isinstance(k.to_python(), Seq) or isinstance(k, tuple) and not _concrete(k):
                # symbolic key: overwrite the existing entry it equals (path fork when undetermined), else add it under an
                # identity-hashed key object
                for kk in list(o.d.keys()):
                    e = self.truth(self.equals(kk, k, ctx), ctx)
                    if ctx.branch(e):
                        o.d[kk] = v
                        return
                o.d[SymKey(k) if isinstance(k, tuple) else k] = v
                return
            k = self.concrete_key(k, ctx)
            o.d[k] = v
            return
        if isinstance(o, PyList):
            i = self.need_concrete_int(k, ctx)
            o.items[i] = v
            return
        for mm in self.method_models:
            r = mm(self, o, "__setitem__", [k, v], {}, ctx)
            if r is not NotImplemented:
                return
        raise Unsupported(f"setitem on {type(o).__name__}")

    def concrete_key(self, k, ctx):
        if isinstance(k, Seq):
            p = k.to_python()
            if isinstance(p, Seq):
                raise Unsupported("symbolic dict key in store")
            return p
        if isz(k):
            c = ctx.concrete_int(k)
            if c is None:
                raise Unsupported("symbolic int dict key in store")
            return c
        return k

    def need_concrete_int(self, k, ctx):
        if isz(k):
            c = ctx.concrete_int(k)
            if c is None:
                raise Unsupported("symbolic index where a concrete one is required")
            return c
        return k

    def st_Return(self, st, env, fr, ctx):
        raise ReturnEx(self.ev(st.value, env, fr, ctx) if st.value is not None else None)

    def st_If(self, st, env, fr, ctx):
        c = self.truth(self.ev(st.test, env, fr, ctx), ctx)
        if ctx.branch(c):
            self.block(st.body, env, fr, ctx)
        else:
            self.block(st.orelse, env, fr, ctx)

    def st_Raise(self, st, env, fr, ctx):
        if st.exc is None:
            cur = env.get("$handling")
            if cur is None:
                raise Unsupported("bare raise outside handler")
            raise PyExc(cur)
        e = self.ev(st.exc, env, fr, ctx)
        if isinstance(e, ExcClass):
            e = ExcVal(e.name, ())
        if not isinstance(e, ExcVal):
            raise Unsupported(f"raise of {e}")
        if st.cause is not None:
            e.cause = self.ev(st.cause, env, fr, ctx)
        raise PyExc(e)

    def st_Try(self, st, env, fr, ctx):
        try:
            try:
                self.block(st.body, env, fr, ctx)
            except PyExc as pe:
                for h in st.handlers:
                    if self.handler_matches(h, pe.exc, env, fr, ctx):
                        if h.name:
                            env[h.name] = pe.exc
                        saved = env.get("$handling")
                        env["$handling"] = pe.exc
                        try:
                            self.block(h.body, env, fr, ctx)
                        finally:
                            env["$handling"] = saved
                        break
                else:
                    raise
            else:
                self.block(st.orelse, env, fr, ctx)
        finally:
            if st.finalbody:
                self.block(st.finalbody, env, fr, ctx)

    def handler_matches(self, h, exc, env, fr, ctx):
        if h.type is None:
            return True
        t = self.ev(h.type, env, fr, ctx)
        ts = t if isinstance(t, tuple) else (t,)
        for c in ts:
            if not isinstance(c, ExcClass):
                raise Unsupported(f"except {c}")
            if exc_isinstance(exc.cls, c.name):
                return True
        return False

    def st_For(self, st, env, fr, ctx):
        it = self.ev(st.iter, env, fr, ctx)
        handled = self.symbolic_loop(st, it, env, fr, ctx)
        if handled:
            return
        items = self.iterate(it, ctx)
        broke = False
        for x in items:
            self.assign(st.target, x, env, fr, ctx)
            try:
                self.block(st.body, env, fr, ctx)
            except BreakEx:
                broke = True
                break
            except ContinueEx:
                continue
        if not broke:
            self.block(st.orelse, env, fr, ctx)

    def symbolic_loop(self, st, it, env, fr, ctx):
        """hook: loops over symbolic-length collections are handled by an invariant from the sidecar"""
        h = getattr(self, "loop_hook", None)
        if h is not None:
            return h(self, st, it, env, fr, ctx)
        return False

    def st_While(self, st, env, fr, ctx):
        n = 0
        while True:
            c = self.truth(self.ev(st.test, env, fr, ctx), ctx)
            if not ctx.branch(c):
                self.block(st.orelse, env, fr, ctx)
                return
            n += 1
            if n > 64:
                raise Unsupported("while loop exceeds 64 iterations on one path")
            try:
                self.block(st.body, env, fr, ctx)
            except BreakEx:
                return
            except ContinueEx:
                continue

    def st_Break(self, st, env, fr, ctx):
        raise BreakEx()

    def st_Continue(self, st, env, fr, ctx):
        raise ContinueEx()

    def st_With(self, st, env, fr, ctx):
        if len(st.items) != 1:
            raise Unsupported("with: several items")
        item = st.items[0]
        cm = self.ev(item.context_expr, env, fr, ctx)
        if isinstance(cm, EnvObj) and cm.kind == "suppress":
            # contextlib.suppress(*classes): the body's exception is swallowed iff it is an instance of one of the classes;
            # return / break / continue pass through untouched (they are not PyExc)
            if item.optional_vars is not None:
                self.assign(item.optional_vars, None, env, fr, ctx)
            try:
                self.block(st.body, env, fr, ctx)
            except PyExc as pe:
                if not any(exc_isinstance(pe.exc.cls, c.name) for c in cm.state["classes"]):
                    raise
            return
        if not isinstance(cm, EnvObj) or cm.kind != "file":
            raise Unsupported("with on a non-file object")
        if item.optional_vars is not None:
            self.assign(item.optional_vars, cm, env, fr, ctx)
        try:
            self.block(st.body, env, fr, ctx)
        finally:
            cm.state["closed"] = True       # a file's __exit__ closes it on every way out of the block

    def st_Match(self, st, env, fr, ctx):
        """match with value patterns (dotted names / literals), None/True/False, or-patterns, the wildcard and a bare capture;
        guards allowed.  Class, sequence and mapping patterns are out of subset."""
        subject = self.ev(st.subject, env, fr, ctx)
        for case in st.cases:
            env2 = env
            if self.pattern_matches(case.pattern, subject, env2, fr, ctx):
                if case.guard is not None and not ctx.branch(self.truth(self.ev(case.guard, env2, fr, ctx), ctx)):
                    continue
                self.block(case.body, env2, fr, ctx)
                return

    def pattern_matches(self, pat, subject, env, fr, ctx):
        if isinstance(pat, ast.MatchValue):
            return ctx.branch(self.truth(self.equals(subject, self.ev(pat.value, env, fr, ctx), ctx), ctx))
        if isinstance(pat, ast.MatchSingleton):
            r = self.identical(subject, pat.value, ctx)
            return ctx.branch(r) if not isinstance(r, bool) else r
        if isinstance(pat, ast.MatchOr):
            return any(self.pattern_matches(p, subject, env, fr, ctx) for p in pat.patterns)
        if isinstance(pat, ast.MatchAs):
            if pat.pattern is not None and not self.pattern_matches(pat.pattern, subject, env, fr, ctx):
                return False
            if pat.name is not None:
                env[pat.name] = subject
            return True
        raise Unsupported("match pattern " + type(pat).__name__)

    def st_Assert(self, st, env, fr, ctx):
        c = self.truth(self.ev(st.test, env, fr, ctx), ctx)
        if not ctx.branch(c):
            raise PyExc(ExcVal("AssertionError", ()))

    def st_FunctionDef(self, st, env, fr, ctx):
        env[st.name] = Closure(st, env, fr)

    def st_Global(self, st, env, fr, ctx):
        raise Unsupported("global statement")

    def st_Nonlocal(self, st, env, fr, ctx):
        raise Unsupported("nonlocal statement")

    def st_Import(self, st, env, fr, ctx):
        raise Unsupported("import inside function")

    # ---------------------------------------------------------------- expressions
    def ev(self, e, env, fr, ctx):
        m = getattr(self, "ev_" + type(e).__name__, None)
        if m is None:
            raise Unsupported(f"expression {type(e).__name__} at {fr.module.name}:{getattr(e, 'lineno', '?')}")
        return m(e, env, fr, ctx)

    def ev_Constant(self, e, env, fr, ctx):
        return e.value

    def ev_Name(self, e, env, fr, ctx):
        return self.lookup(e.id, env, fr, ctx)

    def _elts(self, elts, env, fr, ctx):
        out = []
        for x in elts:
            if isinstance(x, ast.Starred):
                out += self.iterate(self.ev(x.value, env, fr, ctx), ctx)
            else:
                out.append(self.ev(x, env, fr, ctx))
        return out

    def ev_Tuple(self, e, env, fr, ctx):
        return tuple(self._elts(e.elts, env, fr, ctx))

    def ev_List(self, e, env, fr, ctx):
        return PyList(self._elts(e.elts, env, fr, ctx))

    def ev_Set(self, e, env, fr, ctx):
        return PySet([self.concrete_key(self.ev(x, env, fr, ctx), ctx) for x in e.elts])

    def ev_Dict(self, e, env, fr, ctx):
        d = PyDict()
        for k, v in zip(e.keys, e.values):
            if k is None:
                raise Unsupported("dict unpacking")
            d.d[self.concrete_key(self.ev(k, env, fr, ctx), ctx)] = self.ev(v, env, fr, ctx)
        return d

    def ev_JoinedStr(self, e, env, fr, ctx):
        out = ""
        for part in e.values:
            if isinstance(part, ast.Constant):
                piece = part.value
            else:
                v = self.ev(part.value, env, fr, ctx)
                if part.conversion not in (-1, 115):
                    raise Unsupported("f-string conversion")
                spec = ""
                if part.format_spec is not None:
                    spec = self.ev(part.format_spec, env, fr, ctx)
                    if not isinstance(spec, str):
                        raise Unsupported("symbolic format spec")
                piece = self.format_value(v, spec, ctx)
            out = self.add(out, piece, ctx)
        return out

    def ev_FormattedValue(self, e, env, fr, ctx):
        v = self.ev(e.value, env, fr, ctx)
        return self.format_value(v, "", ctx)

    def ev_Lambda(self, e, env, fr, ctx):
        return Closure(e, env, fr)

    def ev_NamedExpr(self, e, env, fr, ctx):
        v = self.ev(e.value, env, fr, ctx)
        self.assign(e.target, v, env, fr, ctx)
        return v

    def ev_IfExp(self, e, env, fr, ctx):
        c = self.truth(self.ev(e.test, env, fr, ctx), ctx)
        return self.ev(e.body if ctx.branch(c) else e.orelse, env, fr, ctx)

    def ev_BoolOp(self, e, env, fr, ctx):
        # Python semantics: returns one of the operands
        v = None
        for i, x in enumerate(e.values):
            v = self.ev(x, env, fr, ctx)
            if i == len(e.values) - 1:
                return v
            t = ctx.branch(self.truth(v, ctx))
            if isinstance(e.op, ast.And) and not t:
                return v
            if isinstance(e.op, ast.Or) and t:
                return v
        return v

    def ev_UnaryOp(self, e, env, fr, ctx):
        v = self.ev(e.operand, env, fr, ctx)
        if isinstance(e.op, ast.Not):
            t = self.truth(v, ctx)
            return (not t) if isinstance(t, bool) else simp(z3.Not(t))
        if isinstance(e.op, ast.USub):
            return -v
        if isinstance(e.op, ast.UAdd):
            return v
        raise Unsupported("unary " + type(e.op).__name__)

    def ev_BinOp(self, e, env, fr, ctx):
        a = self.ev(e.left, env, fr, ctx)
        b = self.ev(e.right, env, fr, ctx)
        return self.binop(e.op, a, b, ctx)

    def ev_Compare(self, e, env, fr, ctx):
        left = self.ev(e.left, env, fr, ctx)
        result = True
        for op, rn in zip(e.ops, e.comparators):
            right = self.ev(rn, env, fr, ctx)
            r = self.compare(op, left, right, ctx)
            if len(e.ops) == 1:
                return r
            # chained comparison: short circuit like `and`
            if not ctx.branch(self.truth(r, ctx)):
                return False
            left = right
        return result

    def ev_Attribute(self, e, env, fr, ctx):
        o = self.ev(e.value, env, fr, ctx)
        return self.getattr(o, e.attr, ctx)

    def ev_Subscript(self, e, env, fr, ctx):
        o = self.ev(e.value, env, fr, ctx)
        if isinstance(e.slice, ast.Slice):
            lo = self.ev(e.slice.lower, env, fr, ctx) if e.slice.lower is not None else None
            hi = self.ev(e.slice.upper, env, fr, ctx) if e.slice.upper is not None else None
            if e.slice.step is not None:
                raise Unsupported("slice step")
            return self.getslice(o, lo, hi, ctx)
        k = self.ev(e.slice, env, fr, ctx)
        if isinstance(k, slice):
            # a slice object built elsewhere (module constant): the same as the literal slice
            if k.step is not None:
                raise Unsupported("slice step")
            return self.getslice(o, k.start, k.stop, ctx)
        return self.getitem(o, k, ctx)

    def ev_Call(self, e, env, fr, ctx):
        # super() needs the frame
        if isinstance(e.func, ast.Name) and e.func.id == "super" and not e.args:
            return SuperProxy(fr.self_obj, fr.cls)
        f = self.ev(e.func, env, fr, ctx)
        args = []
        for a in e.args:
            if isinstance(a, ast.Starred):
                args += self.iterate(self.ev(a.value, env, fr, ctx), ctx)
            else:
                args.append(self.ev(a, env, fr, ctx))
        kwargs = {}
        for kw in e.keywords:
            if kw.arg is None:
                raise Unsupported("**kwargs call")
            kwargs[kw.arg] = self.ev(kw.value, env, fr, ctx)
        return self.call(f, args, kwargs, ctx)

    def ev_Await(self, e, env, fr, ctx):
        return self.ev(e.value, env, fr, ctx)

    def ev_ListComp(self, e, env, fr, ctx):
        self._comp_unordered = False
        l = PyList(self.comprehension(e.elt, e.generators, env, fr, ctx))
        if self._comp_unordered and len(l.items) > 1:
            l.unordered = True
        return l

    def ev_GeneratorExp(self, e, env, fr, ctx):
        # lazy, as in Python: nothing is evaluated when the expression is created (only the outermost iterable), elements are
        # produced when a consumer asks for them (next/any/all stop early)
        from .sym import LazyList
        self._comp_unordered = False
        return LazyList(self.comprehension_iter(e.elt, e.generators, dict(env), fr, ctx))

    def comprehension_iter(self, elt, gens, env, fr, ctx):
        def rec(i, env2):
            if i == len(gens):
                yield self.ev(elt, env2, fr, ctx)
                return
            g = gens[i]
            src = self.ev(g.iter, env2, fr, ctx)
            for x in self.iterate(src, ctx):
                env3 = dict(env2)
                self.assign(g.target, x, env3, fr, ctx)
                ok = True
                for cond in g.ifs:
                    if not ctx.branch(self.truth(self.ev(cond, env3, fr, ctx), ctx)):
                        ok = False
                        break
                if ok:
                    yield from rec(i + 1, env3)
        return rec(0, env)

    def ev_DictComp(self, e, env, fr, ctx):
        d = PyDict()
        pairs = self.comprehension(ast.Tuple(elts=[e.key, e.value], ctx=ast.Load()), e.generators, env, fr, ctx)
        for k, v in pairs:
            d.d[self.concrete_key(k, ctx)] = v
        return d

    def ev_SetComp(self, e, env, fr, ctx):
        # {elt for ...} == s = set(); for ...: s.add(elt) - through the set model's add, so that elements with a user __eq__ /
        # __hash__ and symbolic elements are de-duplicated exactly as in the loop form
        s = PySet([])
        for x in self.comprehension(e.elt, e.generators, env, fr, ctx):
            done = False
            for mm in self.method_models:
                r = mm(self, s, "add", [x], {}, ctx)
                if r is not NotImplemented:
                    done = True
                    break
            if not done:
                raise Unsupported("set comprehension element")
        return s

    def comprehension(self, elt, gens, env, fr, ctx):
        out = []

        def rec(i, env2):
            if i == len(gens):
                out.append(self.ev(elt, env2, fr, ctx))
                return
            g = gens[i]
            src = self.ev(g.iter, env2, fr, ctx)
            if isinstance(src, (PySet, set, frozenset)) or getattr(src, "unordered", False):
                self._comp_unordered = True
            for x in self.iterate(src, ctx):
                env3 = dict(env2)
                self.assign(g.target, x, env3, fr, ctx)
                ok = True
                for cond in g.ifs:
                    if not ctx.branch(self.truth(self.ev(cond, env3, fr, ctx), ctx)):
                        ok = False
                        break
                if ok:
                    rec(i + 1, env3)
        rec(0, dict(env))
        return out

    # ---------------------------------------------------------------- operations
    def truth(self, v, ctx):
        if isinstance(v, bool):
            return v
        if isz(v):
            if z3.is_bool(v):
                return v
            return simp(v != 0)
        if v is None:
            return False
        if isinstance(v, (int, float)):
            return v != 0
        if isinstance(v, Rat):
            return simp(zi(v.n) != 0)
        if isinstance(v, (str, bytes, tuple, list, dict, set, frozenset)):
            return len(v) > 0
        if isinstance(v, Seq):
            L = v.length()
            return L != 0 if not isz(L) else simp(L != 0)
        if isinstance(v, PyList):
            return len(v.items) > 0
        if isinstance(v, PyDict):
            return len(v.d) > 0
        if isinstance(v, PySet):
            return len(v.s) > 0
        for mm in self.method_models:
            r = mm(self, v, "__bool__", [], {}, ctx)
            if r is not NotImplemented:
                return r
        if isinstance(v, (Obj, EnvObj, SymEnum, enum.Enum, ClassInfo, FuncInfo, Builtin, Closure, Partial, type, ExcVal)):
            return True
        raise Unsupported(f"truth of {type(v).__name__}")

    def percent_format(self, fmt, arg, ctx):
        """'literal %d %02x %s %%' % value-or-tuple, for a literal format text and the conversions d, i, x, X, s with an optional
        0 flag and width; anything else is out of subset"""
        import re
        from . import seqops
        parts = re.split(r"(%(?:%|[-#0 +]*\d*(?:\.\d+)?[a-zA-Z]))", fmt)
        convs = [p for p in parts[1::2] if p != "%%"]
        if isinstance(arg, tuple):
            vals = list(arg)
        elif isinstance(arg, PyList) or isinstance(arg, (PyDict, dict)):
            vals = [arg]
            if isinstance(arg, (PyDict, dict)):
                raise Unsupported("%-formatting with a mapping")
        else:
            vals = [arg]
        if len(vals) != len(convs):
            raise PyExc(ExcVal("TypeError", ("not enough / too many arguments for format string",)))
        out = ""
        k = 0
        for i, p_ in enumerate(parts):
            if i % 2 == 0:
                piece = p_
            elif p_ == "%%":
                piece = "%"
            else:
                m = re.fullmatch(r"%(0?)(\d*)([dixXs])", p_)
                if not m:
                    raise Unsupported(f"%-format conversion {p_!r}")
                zero, width, typ = m.groups()
                v = vals[k]
                k += 1
                if typ == "s":
                    if width or zero:
                        raise Unsupported("%s with a width")
                    piece = seqops.format_value(self, v, "", ctx) if not isinstance(v, (str, Seq)) else v
                else:
                    if isinstance(v, bool) or not (isinstance(v, int) or is_symint(v)):
                        if isinstance(v, (str, Seq, bytes)) or v is None:
                            raise PyExc(ExcVal("TypeError", (f"%{typ} format: a number is required",)))
                        raise Unsupported(f"%{typ} of {type(v).__name__}")
                    if typ in "di" and not zero and not width:
                        piece = seqops.str_of_int(v, ctx)        # no path fork for small non-negative numbers
                    else:
                        piece = seqops.format_int(v, zero + width + ("d" if typ == "i" else typ), ctx)
            out = piece if (isinstance(out, str) and out == "") else self.add(out, piece, ctx)
        return out

    def binop(self, op, a, b, ctx):
        name = type(op).__name__
        if _concrete(a) and _concrete(b):
            try:
                return _PYOPS[name](a, b)
            except ZeroDivisionError:
                raise PyExc(ExcVal("ZeroDivisionError", ()))
            except TypeError as te:
                raise PyExc(ExcVal("TypeError", (str(te),)))
        for mm in self.method_models:
            r = mm(self, a, "__binop__", [name, b, False], {}, ctx)
            if r is not NotImplemented:
                return r
            r = mm(self, b, "__binop__", [name, a, True], {}, ctx)
            if r is not NotImplemented:
                return r
        if name in ("BitOr", "BitAnd") and (isinstance(a, bool) or is_symbool(a)) and (isinstance(b, bool) or is_symbool(b)):
            return simp(z3.Or(zb(a), zb(b)) if name == "BitOr" else z3.And(zb(a), zb(b)))
        if name == "Add":
            return self.add(a, b, ctx)
        if name == "Mod" and isinstance(a, str):
            return self.percent_format(a, b, ctx)
        if name == "Mult" and (isinstance(a, (str, bytes, Seq)) or isinstance(b, (str, bytes, Seq))):
            s, n = (a, b) if isinstance(a, (str, bytes, Seq)) else (b, a)
            if isz(n) and ctx.concrete_int(n) is None:
                # small case split on the repeat count
                k = ctx.choose([zi(n) <= 0] + [zi(n) == i for i in range(1, 65)] + [zi(n) > 64])
                if k == 65:
                    raise Unsupported("sequence repeated a symbolic number (> 64) of times")
                n = k
            n = self.need_concrete_int(n, ctx)
            s = Seq.of(s)
            out = Seq(s.kind, [])
            for _ in range(max(n, 0)):
                out = seq_concat(out, s)
            return out
        if isinstance(a, Rat) or isinstance(b, Rat) or (name == "Div" and (is_symint(a) or isinstance(a, int)) and
                                                       not isinstance(a, bool) and _posint(b) is not None):
            r = self.rat_binop(name, a, b, ctx)
            if r is not NotImplemented:
                return r
        if _numeric(a) and _numeric(b):
            real = is_symreal(a) or is_symreal(b) or isinstance(a, float) or isinstance(b, float)
            if real:
                a, b = _toreal(a), _toreal(b)
            else:
                a, b = zi(a), zi(b)
            if name == "Add":
                return simp(a + b)
            if name == "Sub":
                return simp(a - b)
            if name == "Mult":
                return simp(a * b)
            if name == "Div":
                bc = as_const(b) if not real else None
                ctx.used_models.add("float: true division modelled as exact real division")
                if ctx.branch(simp(b == 0)):
                    raise PyExc(ExcVal("ZeroDivisionError", ()))
                return simp(_toreal(a) / _toreal(b))
            if name in ("FloorDiv", "Mod"):
                if real:
                    raise Unsupported("float // or %")
                bc = as_const(b)
                if bc is None or bc <= 0:
                    raise Unsupported("// or % by a non-constant or non-positive divisor")
                return simp(a / bc) if name == "FloorDiv" else simp(a % bc)
            if name == "BitAnd":
                return self.bitand(a, b, ctx)
            if name == "BitOr":
                return self.bitor(a, b, ctx)
        if name == "BitOr" and (is_symbool(a) or is_symbool(b) or isinstance(a, bool) or isinstance(b, bool)):
            return simp(z3.Or(zb(a), zb(b)))
        raise Unsupported(f"binop {name} on {type(a).__name__}, {type(b).__name__}")

    def rat_binop(self, name, a, b, ctx):
        ctx.used_models.add("float: int / constant, divmod, int() and comparisons on such quotients are exact rational arithmetic")
        def lift(x):
            if isinstance(x, Rat):
                return x
            if isinstance(x, bool):
                return Rat(int(x), 1)
            if isinstance(x, int) or is_symint(x):
                return Rat(x, 1)
            if isinstance(x, float) and x == int(x):
                return Rat(int(x), 1)
            return None
        if name == "Div":
            d = _posint(b)
            la = lift(a)
            if d is None or la is None:
                return NotImplemented
            return Rat(la.n, la.d * d)
        la, lb = lift(a), lift(b)
        if la is None or lb is None:
            return NotImplemented
        if name in ("Add", "Sub"):
            n1 = zi(la.n) * lb.d if lb.d != 1 else zi(la.n)
            n2 = zi(lb.n) * la.d if la.d != 1 else zi(lb.n)
            return Rat(simp(n1 + n2 if name == "Add" else n1 - n2), la.d * lb.d)
        if name == "Mult":
            if not isz(la.n) or not isz(lb.n):
                return Rat(simp(zi(la.n) * zi(lb.n)), la.d * lb.d)
        return NotImplemented

    def bitand(self, a, b, ctx):
        """bitwise and for non-negative ints: when one side is a concrete power of two, test the bit; else 16-bit BV"""
        for x, y in ((a, b), (b, a)):
            c = as_const(x)
            if c is not None and c > 0 and c & (c - 1) == 0:
                if not ctx.entails(zi(y) >= 0):
                    raise Unsupported("& on a possibly negative int")
                return simp(z3.If((zi(y) / c) % 2 == 1, z3.IntVal(c), z3.IntVal(0)))
        if ctx.entails(z3.And(zi(a) >= 0, zi(a) < 65536, zi(b) >= 0, zi(b) < 65536)):
            return z3.BV2Int(z3.Int2BV(zi(a), 16) & z3.Int2BV(zi(b), 16))
        raise Unsupported("& on unbounded ints")

    def bitor(self, a, b, ctx):
        if ctx.entails(z3.And(zi(a) >= 0, zi(a) < 65536, zi(b) >= 0, zi(b) < 65536)):
            return z3.BV2Int(z3.Int2BV(zi(a), 16) | z3.Int2BV(zi(b), 16))
        raise Unsupported("| on unbounded ints")

    def add(self, a, b, ctx):
        if _concrete(a) and _concrete(b):
            try:
                return a + b
            except TypeError as te:
                raise PyExc(ExcVal("TypeError", (str(te),)))
        if isinstance(a, (str, bytes, Seq)) and isinstance(b, (str, bytes, Seq)):
            sa, sb = Seq.of(a), Seq.of(b)
            if sa.kind != sb.kind:
                raise PyExc(ExcVal("TypeError", ("str + bytes",)))
            return seq_concat(sa, sb)
        if isinstance(a, PyList) and isinstance(b, PyList):
            return PyList(a.items + b.items)
        if isinstance(a, tuple) and isinstance(b, tuple):
            return a + b
        if _numeric(a) and _numeric(b):
            if is_symreal(a) or is_symreal(b) or isinstance(a, float) or isinstance(b, float):
                return simp(_toreal(a) + _toreal(b))
            return simp(zi(a) + zi(b))
        if isinstance(a, (str, bytes, Seq)) or isinstance(b, (str, bytes, Seq)):
            raise PyExc(ExcVal("TypeError", ("can only concatenate str",)))
        raise Unsupported(f"+ on {type(a).__name__}, {type(b).__name__}")

    def compare(self, op, a, b, ctx):
        name = type(op).__name__
        if name == "Is":
            return self.identical(a, b, ctx)
        if name == "IsNot":
            r = self.identical(a, b, ctx)
            return (not r) if isinstance(r, bool) else simp(z3.Not(r))
        if name == "In":
            return self.contains(b, a, ctx)
        if name == "NotIn":
            r = self.contains(b, a, ctx)
            return (not r) if isinstance(r, bool) else simp(z3.Not(r))
        if name == "Eq":
            return self.equals(a, b, ctx)
        if name == "NotEq":
            r = self.equals(a, b, ctx)
            return (not r) if isinstance(r, bool) else simp(z3.Not(r))
        # ordering
        if _concrete(a) and _concrete(b):
            try:
                return _PYOPS[name](a, b)
            except TypeError as te:
                raise PyExc(ExcVal("TypeError", (str(te),)))
        for mm in self.method_models:
            r = mm(self, a, "__cmp__", [name, b], {}, ctx)
            if r is not NotImplemented:
                return r
        if isinstance(a, Rat) or isinstance(b, Rat):
            x, y = _ratpair(a, b)
            if x is not None:
                l, r = zi(x.n) * y.d, zi(y.n) * x.d
                return simp({"Lt": l < r, "LtE": l <= r, "Gt": l > r, "GtE": l >= r}[name])
        if _numeric(a) and _numeric(b):
            if is_symreal(a) or is_symreal(b) or isinstance(a, float) or isinstance(b, float):
                a, b = _toreal(a), _toreal(b)
            else:
                a, b = zi(a), zi(b)
            return simp({"Lt": a < b, "LtE": a <= b, "Gt": a > b, "GtE": a >= b}[name])
        if isinstance(a, (str, bytes, Seq)) and isinstance(b, (str, bytes, Seq)):
            sa, sb = Seq.of(a), Seq.of(b)
            if sa.kind == sb.kind and sa.fixed() and sb.fixed():
                # lexicographic order of two texts / byte strings of known lengths (code point order, as Python compares)
                ta, tb = [zi(t) for t in sa.terms()], [zi(t) for t in sb.terms()]
                n = min(len(ta), len(tb))
                lt_cases, eq_prefix = [], []
                for i in range(n):
                    lt_cases.append(z3.And(eq_prefix + [ta[i] < tb[i]]))
                    eq_prefix = eq_prefix + [ta[i] == tb[i]]
                all_eq = z3.And(eq_prefix) if eq_prefix else z3.BoolVal(True)
                lt = z3.Or(lt_cases + ([all_eq] if len(ta) < len(tb) else []))
                eq = z3.And(all_eq, z3.BoolVal(len(ta) == len(tb)))
                res = {"Lt": lt, "LtE": z3.Or(lt, eq), "Gt": z3.Not(z3.Or(lt, eq)), "GtE": z3.Not(lt)}[name]
                return simp(res)
            if sa.kind != sb.kind:
                raise PyExc(ExcVal("TypeError", ("'<' not supported between str and bytes",)))
        raise Unsupported(f"compare {name} on {type(a).__name__}, {type(b).__name__}")

    def identical(self, a, b, ctx):
        if isinstance(a, Builtin) and a.pytype is not None:
            a = a.pytype
        if isinstance(b, Builtin) and b.pytype is not None:
            b = b.pytype
        if isinstance(a, SymEnum) or isinstance(b, SymEnum):
            return self.equals(a, b, ctx)
        if a is None or b is None or isinstance(a, (bool, type, ClassInfo, enum.Enum, Obj, EnvObj)) or \
                isinstance(b, (bool, type, ClassInfo, enum.Enum, Obj, EnvObj)):
            if (a is None or b is None) and (isz(a) or isz(b) or isinstance(a, Seq) or isinstance(b, Seq)):
                return False
            if isz(a) or isz(b):
                if (isinstance(a, bool) or is_symbool(a)) and (isinstance(b, bool) or is_symbool(b)):
                    return simp(zb(a) == zb(b))
                return False
            return a is b
        raise Unsupported(f"`is` on {type(a).__name__}, {type(b).__name__}")

    def equals(self, a, b, ctx):
        if isinstance(a, SymKey):
            a = a.v
        if isinstance(b, SymKey):
            b = b.v
        if _concrete(a) and _concrete(b):
            return a == b
        if isinstance(a, SymEnum) or isinstance(b, SymEnum):
            if isinstance(a, SymEnum) and isinstance(b, SymEnum):
                if a.cls is not b.cls:
                    return False
                return simp(zi(a.idx) == zi(b.idx))
            s, o = (a, b) if isinstance(a, SymEnum) else (b, a)
            if isinstance(o, enum.Enum) and o in s.members:
                return simp(zi(s.idx) == s.members.index(o))
            return False
        if isinstance(a, (str, bytes, Seq)) and isinstance(b, (str, bytes, Seq)):
            f = seq_eq(a, b)
            return f if isinstance(f, bool) else simp(f)
        if a is None or b is None:
            return a is b
        if isinstance(a, Rat) or isinstance(b, Rat):
            x, y = _ratpair(a, b)
            if x is None:
                if is_symreal(a) or is_symreal(b):
                    ra = a.real() if isinstance(a, Rat) else _toreal(a)
                    rb = b.real() if isinstance(b, Rat) else _toreal(b)
                    return simp(ra == rb)
                return False
            return simp(zi(x.n) * y.d == zi(y.n) * x.d)
        if _numeric(a) and _numeric(b):
            if is_symbool(a) or is_symbool(b):
                if (isinstance(a, bool) or is_symbool(a)) and (isinstance(b, bool) or is_symbool(b)):
                    return simp(zb(a) == zb(b))
                a = z3.If(a, 1, 0) if is_symbool(a) else a
                b = z3.If(b, 1, 0) if is_symbool(b) else b
            if is_symreal(a) or is_symreal(b) or isinstance(a, float) or isinstance(b, float):
                return simp(_toreal(a) == _toreal(b))
            return simp(zi(a) == zi(b))
        for mm in self.method_models:
            r = mm(self, a, "__eq__", [b], {}, ctx)
            if r is not NotImplemented:
                return r
            r = mm(self, b, "__eq__", [a], {}, ctx)
            if r is not NotImplemented:
                return r
        if isinstance(a, tuple) and isinstance(b, tuple):
            if len(a) != len(b):
                return False
            return self.conj([self.equals(x, y, ctx) for x, y in zip(a, b)])
        if isinstance(a, PyList) and isinstance(b, PyList):
            if len(a.items) != len(b.items):
                return False
            return self.conj([self.equals(x, y, ctx) for x, y in zip(a.items, b.items)])
        if isinstance(a, PySet) and isinstance(b, PySet):
            return a.s == b.s
        if isinstance(a, PyDict) and isinstance(b, PyDict):
            if set(a.d) != set(b.d):
                return False
            return self.conj([self.equals(a.d[k], b.d[k], ctx) for k in a.d])
        if isinstance(a, Obj) and isinstance(b, Obj):
            m = a.cls.find_method("__eq__")
            if m is not None:
                return self.truth(self.call_function(m, [a, b], {}, ctx), ctx)
            if a.cls.is_dataclass and a.cls is b.cls:
                names = [f[0] for f in a.cls.dataclass_fields() if not f[4]]
                return self.conj([self.equals(a.attrs.get(n), b.attrs.get(n), ctx) for n in names])
            return a is b
        if isinstance(a, Obj) or isinstance(b, Obj):
            o, other = (a, b) if isinstance(a, Obj) else (b, a)
            m = o.cls.find_method("__eq__")
            if m is not None:
                return self.truth(self.call_function(m, [o, other], {}, ctx), ctx)
            return False
        # different kinds of values are unequal (int vs str, enum vs str ...)
        ka, kb = _kind(a), _kind(b)
        if ka != kb and ka is not None and kb is not None:
            return False
        raise Unsupported(f"== on {type(a).__name__}, {type(b).__name__}")

    def conj(self, fs):
        out = []
        for f in fs:
            if f is False:
                return False
            if f is True:
                continue
            c = as_bool_const(f)
            if c is False:
                return False
            if c is True:
                continue
            out.append(f)
        if not out:
            return True
        return simp(z3.And(out)) if len(out) > 1 else out[0]

    def disj(self, fs):
        out = []
        for f in fs:
            c = f if isinstance(f, bool) else as_bool_const(f)
            if c is True:
                return True
            if c is False:
                continue
            out.append(f)
        if not out:
            return False
        return simp(z3.Or(out)) if len(out) > 1 else out[0]

    def contains(self, container, x, ctx):
        if _concrete(container) and _concrete(x):
            try:
                return x in container
            except TypeError as te:
                raise PyExc(ExcVal("TypeError", (str(te),)))
        if isinstance(container, (PyList, tuple, list)):
            items = container.items if isinstance(container, PyList) else list(container)
            return self.disj([self.equals(i, x, ctx) for i in items])
        if isinstance(container, PyDict):
            return self.disj([self.equals(k, x, ctx) for k in container.d])
        if isinstance(container, PySet):
            return self.disj([self.equals(k, x, ctx) for k in container.s])
        if isinstance(container, range) and isz(x) and x.sort() == z3.IntSort():
            # a symbolic int in a concrete range: start <= x < stop on the step grid (sign of step respected)
            a, b, st = container.start, container.stop, container.step
            if len(container) == 0:
                return False
            lo, hi = (a, container[-1]) if st > 0 else (container[-1], a)
            conds = [x >= lo, x <= hi]
            if abs(st) != 1:
                conds.append((x - a) % abs(st) == 0)
            return simp(z3.And(conds))
        for mm in self.method_models:
            r = mm(self, container, "__contains__", [x], {}, ctx)
            if r is not NotImplemented:
                return r
        raise Unsupported(f"`in` on {type(container).__name__}")

    # ---------------------------------------------------------------- attribute / item access
    def getattr(self, o, attr, ctx):
        if isinstance(o, ExcVal) and attr in ("errno", "strerror", "args", "filename"):
            # an OSError raised by the environment carries an error number the code cannot know in advance: any value
            if attr == "args":
                return tuple(o.args)
            if not exc_isinstance(o.cls, "OSError"):
                raise PyExc(ExcVal("AttributeError", (attr,)))
            cache = getattr(o, "_attrs", None)
            if cache is None:
                cache = {}
                o._attrs = cache
            if attr not in cache:
                if attr == "errno":
                    v = z3.Int(fresh_name("errno"))
                    ctx.fact(z3.And(v >= 1, v <= 200))
                    ctx.used_models.add("OSError.errno of an environment failure: any error number")
                    cache[attr] = v
                else:
                    cache[attr] = "error text"
            return cache[attr]
        if isinstance(o, Obj):
            if attr in o.attrs:
                return o.attrs[attr]
            m = o.cls.find_method(attr)
            if m is not None:
                if m.is_property:
                    return self.call_function(m, [o], {}, ctx)
                if "staticmethod" in m.decorators:
                    return m                   # instance.static(...) passes no instance
                return BoundMethod(m, o)
            for c in o.cls.mro():
                if attr in c.class_attrs:
                    return self.ev(c.class_attrs[attr], {}, Frame(c.module), ctx)
            raise PyExc(ExcVal("AttributeError", (attr,)))
        if isinstance(o, ModuleInfo):
            r = self.P.resolve_static(o, attr)
            if r is None:
                raise PyExc(ExcVal("AttributeError", (attr,)))
            return self.static_value(r, ctx)
        if isinstance(o, ExtModule):
            return self.static_value(("ext", o.dotted + "." + attr), ctx)
        if isinstance(o, SuperProxy):
            m = o.obj.cls.find_method(attr, after=o.after)
            if m is None:
                if attr in ("__post_init__", "__init__"):
                    return Builtin("noop", lambda ip, args, kw, ctx: None)
                raise PyExc(ExcVal("AttributeError", (attr,)))
            return BoundMethod(m, o.obj)
        if isinstance(o, SymEnum):
            vals = [getattr(m, attr) for m in o.members]
            if all(isinstance(v, int) and not isinstance(v, bool) for v in vals):
                out = z3.IntVal(vals[-1])
                for k in reversed(range(len(vals) - 1)):
                    out = z3.If(zi(o.idx) == k, z3.IntVal(vals[k]), out)
                return simp(out)
            if all(isinstance(v, str) for v in vals) and len({len(v) for v in vals}) == 1 and attr != "name":
                # same-length text attribute: per-character If-chains instead of a path fork
                n = len(vals[0])
                ts = []
                for j in range(n):
                    out = z3.IntVal(ord(vals[-1][j]))
                    for k in reversed(range(len(vals) - 1)):
                        out = z3.If(zi(o.idx) == k, z3.IntVal(ord(vals[k][j])), out)
                    ts.append(simp(out))
                return Seq('str', [Elems(ts)])
            k = ctx.choose([zi(o.idx) == i for i in range(len(o.members))])
            return self.lift_const(vals[k])
        if isinstance(o, ClassInfo):
            m = o.find_method(attr)
            if m is not None:
                return m
            for c in o.mro():
                if attr in c.class_attrs:
                    return self.ev(c.class_attrs[attr], {}, Frame(c.module), ctx)
            raise PyExc(ExcVal("AttributeError", (attr,)))
        for mm in self.method_models:
            r = mm(self, o, "__getattr__", [attr], {}, ctx)
            if r is not NotImplemented:
                return r
        if isinstance(o, enum.Enum) or (isinstance(o, type) and issubclass(o, enum.Enum)):
            try:
                return self.lift_const(getattr(o, attr))
            except AttributeError:
                raise PyExc(ExcVal("AttributeError", (attr,)))
        # methods of values: bound lazily
        return MethodRef(o, attr)

    def getitem(self, o, k, ctx):
        if _concrete(o) and _concrete(k) and not isinstance(o, (PyList, PyDict)):
            try:
                return self.lift_const(o[k])
            except IndexError:
                raise PyExc(ExcVal("IndexError", ()))
            except KeyError:
                raise PyExc(ExcVal("KeyError", (k,)))
            except TypeError as te:
                raise PyExc(ExcVal("TypeError", (str(te),)))
        if isinstance(o, (str, bytes, Seq)):
            return self.seq_index(Seq.of(o), k, ctx)
        if isinstance(o, (PyList, tuple)):
            items = o.items if isinstance(o, PyList) else list(o)
            if getattr(o, "unordered", False) and len(items) > 1:
                raise Unsupported("order-dependent use of set iteration order (indexing)")
            if isz(k):
                c = ctx.concrete_int(k)
                if c is None:
                    n = len(items)
                    idx = ctx.choose([zi(k) == i for i in range(-n, n)] + [z3.Or(zi(k) < -n, zi(k) >= n)])
                    if idx == 2 * n:
                        raise PyExc(ExcVal("IndexError", ()))
                    c = idx - n
                k = c
            if not isinstance(k, int):
                raise PyExc(ExcVal("TypeError", ("list indices",)))
            if -len(items) <= k < len(items):
                return items[k]
            raise PyExc(ExcVal("IndexError", ()))
        if isinstance(o, PyDict):
            return self.dict_lookup(o, k, ctx)
        if isinstance(o, type) and issubclass(o, enum.Enum):
            if isinstance(k, str):
                try:
                    return o[k]
                except KeyError:
                    raise PyExc(ExcVal("KeyError", (k,)))
            raise Unsupported("Enum[symbolic name]")
        for mm in self.method_models:
            r = mm(self, o, "__getitem__", [k], {}, ctx)
            if r is not NotImplemented:
                return r
        raise Unsupported(f"subscript on {type(o).__name__}")

    def dict_lookup(self, d, k, ctx, default=KeyError):
        if _concrete(k):
            try:
                if k in d.d:
                    return d.d[k]
            except TypeError:
                raise PyExc(ExcVal("TypeError", ("unhashable",)))
            if default is KeyError:
                raise PyExc(ExcVal("KeyError", (k,)))
            return default
        keys = list(d.d.keys())
        conds = [self.equals(kk, k, ctx) for kk in keys]
        conds = [zb(c) for c in conds]
        miss = simp(z3.Not(z3.Or(conds))) if conds else z3.BoolVal(True)
        i = ctx.choose(conds + [miss])
        if i == len(keys):
            if default is KeyError:
                raise PyExc(ExcVal("KeyError", (k,)))
            return default
        return d.d[keys[i]]

    def seq_index(self, s, k, ctx):
        if isinstance(k, int) and k >= 0:
            pos = 0
            for g in s.segs:
                if isinstance(g, Elems):
                    if k < pos + len(g.terms):
                        return self._elem_value(s, g.terms[k - pos])
                    pos += len(g.terms)
                else:
                    break
        L = s.length()
        if not isz(k) and not isz(L):
            if -L <= k < L:
                t = s.at(k % L if k < 0 else k)
                return self._elem_value(s, t)
            raise PyExc(ExcVal("IndexError", ()))
        kk = zi(k)
        inr = simp(z3.And(kk >= -zi(L), kk < zi(L)))
        if not ctx.branch(inr):
            raise PyExc(ExcVal("IndexError", ()))
        neg = ctx.branch(simp(kk < 0))
        idx = simp(kk + zi(L)) if neg else kk
        c = ctx.concrete_int(idx)
        t = s.at(c if c is not None else idx)
        return self._elem_value(s, t)

    def _elem_value(self, s, t):
        if s.kind == 'bytes':
            return t
        if not isz(t):
            return chr(t)
        return Seq('str', [Elems([t])])

    def getslice(self, o, lo, hi, ctx):
        if _concrete(o) and _concrete(lo) and _concrete(hi) and not isinstance(o, PyList):
            return o[lo:hi]
        if isinstance(o, PyList):
            lo = self.need_concrete_int(lo, ctx) if lo is not None else None
            hi = self.need_concrete_int(hi, ctx) if hi is not None else None
            return PyList(o.items[lo:hi])
        if isinstance(o, tuple):
            return o[self.need_concrete_int(lo, ctx) if lo is not None else None:
                     self.need_concrete_int(hi, ctx) if hi is not None else None]
        if isinstance(o, (str, bytes, Seq)):
            from .seqops import seq_slice
            return seq_slice(Seq.of(o), lo, hi, ctx)
        for mm in self.method_models:
            r = mm(self, o, "__getslice__", [lo, hi], {}, ctx)
            if r is not NotImplemented:
                return r
        raise Unsupported(f"slice of {type(o).__name__}")

    def iterate(self, v, ctx):
        """python list of the items of a concrete-shape iterable"""
        if isinstance(v, PyList):
            return list(v.items)
        if isinstance(v, (tuple, list)):
            return list(v)
        if isinstance(v, PySet):
            return sorted(v.s, key=_set_order)
        if isinstance(v, (set, frozenset)):
            return sorted(v, key=_set_order)
        if isinstance(v, PyDict):
            return list(v.d.keys())
        if isinstance(v, dict):
            return list(v.keys())
        if isinstance(v, type) and issubclass(v, enum.Enum):
            return list(v)
        if isinstance(v, str):
            return list(v)
        if isinstance(v, bytes):
            return list(v)
        if isinstance(v, range):
            return list(v)
        if isinstance(v, Seq):
            if not v.fixed():
                raise Unsupported("iteration over a symbolic-length sequence")
            return [self._elem_value(v, t) for t in v.terms()]
        for mm in self.method_models:
            r = mm(self, v, "__iter__", [], {}, ctx)
            if r is not NotImplemented:
                return r
        raise Unsupported(f"iteration over {type(v).__name__}")

    # ---------------------------------------------------------------- calls
    def call(self, f, args, kwargs, ctx):
        if isinstance(f, Builtin):
            return f.fn(self, args, kwargs, ctx)
        if isinstance(f, FuncInfo):
            return self.call_function(f, args, kwargs, ctx)
        if isinstance(f, BoundMethod):
            return self.call_function(f.fn, [f.self_obj] + list(args), kwargs, ctx)
        if isinstance(f, MethodRef):
            return self.call_method(f.obj, f.name, args, kwargs, ctx)
        if isinstance(f, Closure):
            return self.call_closure(f, args, kwargs, ctx)
        if isinstance(f, Partial):
            kw = dict(f.kwargs)
            kw.update(kwargs)
            return self.call(f.fn, f.args + list(args), kw, ctx)
        if isinstance(f, ClassInfo):
            return self.instantiate(f, args, kwargs, ctx)
        if isinstance(f, ExcClass):
            return ExcVal(f.name, args)
        if isinstance(f, type) and issubclass(f, enum.Enum):
            return self.enum_by_value(f, args[0], ctx)
        for mm in self.method_models:
            r = mm(self, f, "__call__", args, kwargs, ctx)
            if r is not NotImplemented:
                return r
        raise Unsupported(f"call of {f!r}")

    def enum_by_value(self, cls, v, ctx):
        members = list(cls)
        if _concrete(v):
            for m in members:
                if m.value == v:
                    return m
            raise PyExc(ExcVal("ValueError", (f"{v!r} is not a valid {cls.__name__}",)))
        conds = [zb(self.equals(m.value, v, ctx)) for m in members]
        i = ctx.choose(conds + [simp(z3.Not(z3.Or(conds)))])
        if i == len(members):
            raise PyExc(ExcVal("ValueError", ("not a valid enum value",)))
        return members[i]

    def bind_args(self, node, args, kwargs, env, fr, ctx, defaults_frame=None):
        a = node.args
        names = [x.arg for x in a.posonlyargs + a.args]
        if len(args) > len(names) and a.vararg is None:
            raise PyExc(ExcVal("TypeError", ("too many positional arguments",)))
        for n, v in zip(names, args):
            env[n] = v
        if a.vararg is not None:
            env[a.vararg.arg] = tuple(args[len(names):])
        kwonly = [x.arg for x in a.kwonlyargs]
        for k, v in kwargs.items():
            if k in names or k in kwonly:
                if k in env:
                    raise PyExc(ExcVal("TypeError", (f"multiple values for {k}",)))
                env[k] = v
            elif a.kwarg is not None:
                env.setdefault(a.kwarg.arg, PyDict()).d[k] = v
            else:
                raise PyExc(ExcVal("TypeError", (f"unexpected keyword {k}",)))
        dfr = defaults_frame or fr
        nd = len(a.defaults)
        for n, d in zip(names[len(names) - nd:], a.defaults):
            if n not in env:
                env[n] = self.ev(d, {}, dfr, ctx)
        for n, d in zip(kwonly, a.kw_defaults):
            if n not in env and d is not None:
                env[n] = self.ev(d, {}, dfr, ctx)
        for n in names + kwonly:
            if n not in env:
                raise PyExc(ExcVal("TypeError", (f"missing argument {n}",)))

    def call_function(self, f, args, kwargs, ctx):
        if self.call_hook is not None:
            handled, v = self.call_hook(self, f, args, kwargs, ctx)
            if handled:
                return v
        if "primitive" in f.decorators:
            prim = self.spec_prims.get(f.name)
            if prim is None:
                raise Unsupported(f"spec primitive {f.name} has no symbolic implementation")
            return prim(self, args, kwargs, ctx)
        c = self.contracts.get(f.qualname)
        if c is not None and not self.inline_all and f.qualname not in self.no_contract_for:
            return c.apply(self, f, args, kwargs, ctx)
        return self.exec_function(f, args, kwargs, ctx)

    _KNOWN_DECORATORS = {"property", "staticmethod", "final", "primitive", "unique", "abstractmethod"}

    def exec_function(self, f, args, kwargs, ctx):
        for d in f.decorators:
            if d.split("(")[0].split(".")[-1] not in self._KNOWN_DECORATORS and not d.startswith("dataclass"):
                raise Unsupported(f"decorator @{d} on {f.qualname} is not modelled (it may add state or change the call)")
        ctx.depth += 1
        if ctx.depth > 40:
            raise Unsupported("call depth > 40")
        try:
            self_obj = args[0] if (f.cls is not None and args and "staticmethod" not in f.decorators) else None
            fr = Frame(f.module, f, f.cls, self_obj)
            env = {}
            self.bind_args(f.node, args, kwargs, env, fr, ctx)
            try:
                self.block(f.node.body, env, fr, ctx)
            except ReturnEx as r:
                return r.v
            return None
        finally:
            ctx.depth -= 1

    def call_closure(self, c, args, kwargs, ctx):
        env = dict(c.env)
        self.bind_args(c.node, args, kwargs, env, c.frame, ctx)
        if isinstance(c.node, ast.Lambda):
            return self.ev(c.node.body, env, c.frame, ctx)
        try:
            self.block(c.node.body, env, c.frame, ctx)
        except ReturnEx as r:
            return r.v
        return None

    def instantiate(self, cls, args, kwargs, ctx):
        c = self.contracts.get(cls.qualname)
        if c is not None and not self.inline_all and cls.qualname not in self.no_contract_for:
            return c.apply(self, cls, args, kwargs, ctx)
        o = Obj(cls)
        if cls.is_dataclass:
            fields = cls.dataclass_fields()
            init_fields = [f for f in fields if f[3]]
            initvars = []
            env = {}
            if len(args) > len(init_fields):
                raise PyExc(ExcVal("TypeError", ("too many arguments",)))
            for f, v in zip(init_fields, args):
                env[f[0]] = v
            for k, v in kwargs.items():
                if k not in [f[0] for f in init_fields] or k in env:
                    raise PyExc(ExcVal("TypeError", (f"bad keyword {k}",)))
                env[k] = v
            for f in init_fields:
                if f[0] not in env:
                    if f[2] is None:
                        raise PyExc(ExcVal("TypeError", (f"missing argument {f[0]}",)))
                    env[f[0]] = self.ev(f[2], {}, Frame(cls.module), ctx)
            for f in init_fields:
                if f[4]:
                    initvars.append(env[f[0]])
                else:
                    o.attrs[f[0]] = env[f[0]]
            pi = cls.find_method("__post_init__")
            if pi is not None:
                self.call_function(pi, [o] + initvars, {}, ctx)
            return o
        init = cls.find_method("__init__")
        if init is not None:
            self.call_function(init, [o] + list(args), kwargs, ctx)
        elif args or kwargs:
            raise PyExc(ExcVal("TypeError", ("takes no arguments",)))
        return o

    def call_method(self, o, name, args, kwargs, ctx):
        if is_symint(o) and name == "to_bytes":
            from .sym import int_bytes
            n = self.need_concrete_int(args[0] if args else kwargs.get("length", 1), ctx)
            order = args[1] if len(args) > 1 else kwargs.get("byteorder", "big")
            if kwargs.get("signed"):
                raise Unsupported("int.to_bytes(signed=True)")
            if not ctx.branch(simp(z3.And(o >= 0, o < 256 ** n))):
                raise PyExc(ExcVal("OverflowError", ("int too big to convert",)))
            bs = int_bytes(o, n)
            return Seq('bytes', [Elems(bs if order == "little" else list(reversed(bs)))])
        if isinstance(o, Builtin) and o.pytype is int and name == "from_bytes":
            from .sym import le_value
            from . import seqops
            data = args[0]
            order = args[1] if len(args) > 1 else kwargs.get("byteorder", "big")
            if isinstance(data, bytes):
                return int.from_bytes(data, order)
            sq = seqops.concretize(Seq.of(data), ctx)
            if not sq.fixed():
                raise Unsupported("int.from_bytes of symbolic-length bytes")
            ts = sq.terms()
            return le_value(ts if order == "little" else list(reversed(ts)))
        if isinstance(o, Builtin) and o.pytype is bytes and name == "fromhex":
            return self.call(self.ext_models["binascii.unhexlify"], [args[0]], {}, ctx)
        if getattr(o, "preexisting", False) and isinstance(o, (PyList, PyDict, PySet)) and name in (
                "add", "append", "pop", "update", "clear", "setdefault", "extend", "insert", "remove", "discard", "sort", "reverse"):
            ctx.ghost.heap_writes.append((o, f"{name}()"))
        if getattr(o, "module_level", None) and name in ("add", "append", "pop", "update", "clear", "setdefault", "extend", "insert",
                                                         "remove", "discard", "sort", "reverse"):
            ctx.ghost.module_writes.append((o.module_level, f"{name}() on a module-level object"))
        if _concrete(o) and all(_concrete(a) for a in args) and all(_concrete(a) for a in kwargs.values()) \
                and isinstance(o, (str, bytes, int, float, tuple)):
            return self.native_method(o, name, args, kwargs, ctx)
        for mm in self.method_models:
            r = mm(self, o, name, args, kwargs, ctx)
            if r is not NotImplemented:
                return r
        raise Unsupported(f"method {name} on {type(o).__name__}")

    _NATIVE_OK = {
        str: {"format", "ljust", "rjust", "join", "split", "encode", "rstrip", "lstrip", "strip", "upper", "lower",
              "isdigit", "startswith", "endswith", "zfill", "replace", "find", "count", "index", "isalpha", "center"},
        bytes: {"decode", "hex", "rstrip", "upper", "lower", "startswith", "endswith", "join", "ljust", "rjust"},
        int: {"to_bytes", "bit_length"},
        float: {"is_integer"},
        tuple: {"count", "index"},
    }

    def native_method(self, o, name, args, kwargs, ctx):
        ok = self._NATIVE_OK.get(type(o), set())
        if name not in ok:
            raise Unsupported(f"native method {type(o).__name__}.{name}")
        pyargs = [_unlift(a) for a in args]
        try:
            r = getattr(o, name)(*pyargs, **{k: _unlift(v) for k, v in kwargs.items()})
        except UnicodeDecodeError:
            raise PyExc(ExcVal("UnicodeDecodeError", ()))
        except UnicodeEncodeError:
            raise PyExc(ExcVal("UnicodeEncodeError", ()))
        except ValueError as ve:
            raise PyExc(ExcVal("ValueError", (str(ve),)))
        except IndexError:
            raise PyExc(ExcVal("IndexError", ()))
        except KeyError as ke:
            raise PyExc(ExcVal("KeyError", ke.args))
        except TypeError as te:
            raise PyExc(ExcVal("TypeError", (str(te),)))
        except OverflowError:
            raise PyExc(ExcVal("OverflowError", ()))
        return self.lift_const(r)

    def format_value(self, v, spec, ctx):
        from .seqops import format_value
        return format_value(self, v, spec, ctx)


class SymKey:
    """identity-hashed wrapper for a tuple key that contains symbolic values"""
    def __init__(self, v):
        self.v = v


class MethodRef:
    def __init__(self, obj, name):
        self.obj = obj
        self.name = name


def mark_preexisting(o, depth=0):
    """the object and the containers / objects reachable from its attributes existed before the operation under analysis:
    assignments to them are recorded as heap writes (frame condition)"""
    if depth > 3:
        return
    if isinstance(o, Obj):
        o.preexisting = True
        for v in o.attrs.values():
            mark_preexisting(v, depth + 1)
    elif isinstance(o, (PyList, PyDict, PySet)):
        o.preexisting = True
        vals = o.items if isinstance(o, PyList) else (list(o.d.values()) if isinstance(o, PyDict) else [])
        for v in vals:
            mark_preexisting(v, depth + 1)


def _load(t):
    import copy
    n = copy.copy(t)
    n.ctx = ast.Load()
    return n


def _concrete(v):
    if v is None or isinstance(v, (bool, int, float, str, bytes, enum.Enum, range)):
        return True
    if isinstance(v, tuple):
        return all(_concrete(x) for x in v)
    return False


def _term_size(t, limit):
    n = 0
    stack = [t]
    seen = set()
    while stack and n < limit:
        x = stack.pop()
        i = x.get_id()
        if i in seen:
            continue
        seen.add(i)
        n += 1
        stack.extend(x.children())
    return n


def _posint(b):
    if isinstance(b, bool):
        return None
    if isinstance(b, int) and b > 0:
        return b
    if isinstance(b, float) and b > 0 and b == int(b):
        return int(b)
    return None


def _numeric(v):
    return isinstance(v, (int, float, bool, Rat)) or is_symint(v) or is_symreal(v) or is_symbool(v)


def _ratpair(a, b):
    def lift(x):
        if isinstance(x, Rat):
            return x
        if isinstance(x, bool):
            return Rat(int(x), 1)
        if isinstance(x, int) or is_symint(x):
            return Rat(x, 1)
        if isinstance(x, float):
            from fractions import Fraction
            f = Fraction(x).limit_denominator(10 ** 6)
            if float(f) == x:
                return Rat(f.numerator, f.denominator)
        return None
    x, y = lift(a), lift(b)
    if x is None or y is None:
        return None, None
    return x, y


def _toreal(v):
    if isinstance(v, Rat):
        return v.real()
    if isz(v):
        if z3.is_bool(v):
            return z3.ToReal(z3.If(v, 1, 0))
        return z3.ToReal(v) if z3.is_int(v) else v
    if isinstance(v, float):
        if v != v or v in (float("inf"), float("-inf")):
            raise Unsupported("non-finite float")
        from fractions import Fraction
        fr = Fraction(v)
        return z3.RealVal(f"{fr.numerator}/{fr.denominator}")
    return z3.RealVal(int(v))


def _kind(v):
    if isinstance(v, bool) or is_symbool(v):
        return "num"
    if isinstance(v, (int, float)) or is_symint(v) or is_symreal(v):
        return "num"
    if isinstance(v, str) or (isinstance(v, Seq) and v.kind == 'str'):
        return "str"
    if isinstance(v, bytes) or (isinstance(v, Seq) and v.kind == 'bytes'):
        return "bytes"
    if isinstance(v, (enum.Enum, SymEnum)):
        return "enum"
    if isinstance(v, (tuple,)):
        return "tuple"
    if isinstance(v, PyList):
        return "list"
    if isinstance(v, PyDict):
        return "dict"
    if isinstance(v, PySet):
        return "set"
    if v is None:
        return "none"
    return None


def _set_order(x):
    # deterministic iteration order for sets of enum members / strings (python's order is unspecified;
    # code whose result depends on it is outside the subset and the obligations quantify over results only)
    if isinstance(x, enum.Enum):
        return (0, list(type(x)).index(x))
    return (1, repr(x))


def _unlift(v):
    if isinstance(v, PyList):
        return [_unlift(x) for x in v.items]
    if isinstance(v, PyDict):
        return {k: _unlift(x) for k, x in v.d.items()}
    if isinstance(v, PySet):
        return set(v.s)
    return v


_PYOPS = {
    "Add": lambda a, b: a + b, "Sub": lambda a, b: a - b, "Mult": lambda a, b: a * b,
    "Div": lambda a, b: a / b, "FloorDiv": lambda a, b: a // b, "Mod": lambda a, b: a % b,
    "Pow": lambda a, b: a ** b, "BitAnd": lambda a, b: a & b, "BitOr": lambda a, b: a | b,
    "BitXor": lambda a, b: a ^ b, "LShift": lambda a, b: a << b, "RShift": lambda a, b: a >> b,
    "Lt": lambda a, b: a < b, "LtE": lambda a, b: a <= b, "Gt": lambda a, b: a > b, "GtE": lambda a, b: a >= b,
}
