"""Library models (DESIGN.md 3.1): builtins, stdlib functions and methods of builtin types, as used by aioswitcher.
Everything here is *assumed* and cross-checked against CPython by pyvc.crosscheck on every run."""
import enum
import z3

from .sym import (Rat, isz, is_symint, is_symreal, is_symbool, zi, zb, simp, as_const, as_bool_const, fresh_name,
                  Elems, Gen, Seq, seq_eq, seq_concat, SymEnum, Obj, PyList, PyDict, PySet, ExcVal, IntS, RealS,
                  byte_fact, char_fact, array_gen, nib_hi, nib_lo)
from . import seqops


def _I():
    from . import interp
    return interp


def _raise(cls, *args):
    raise _I().PyExc(ExcVal(cls, args))


def _uns(msg):
    return _I().Unsupported(msg)


# uninterpreted functions shared by code side and spec side
CRC = {}          # arity -> Function


def crc_fn(n):
    if n not in CRC:
        CRC[n] = z3.Function(f"CRC_{n}", *([IntS] * (n + 2)))
    return CRC[n]


CRCG = {}


def crcg_fn(key):
    k = repr(key)
    if k not in CRCG:
        CRCG[k] = z3.Function("CRCG_" + str(len(CRCG)) + "_" + "".join(c if c.isalnum() else "_" for c in k)[:40], IntS, IntS, IntS, IntS)
    return CRCG[k]


ROUND1 = z3.Function("ROUND1", RealS, RealS)        # round(x, 1)
ROUND0 = z3.Function("ROUND0", RealS, IntS)         # round(x)
MKTIME = z3.Function("MKTIME", IntS, IntS, IntS, IntS, IntS, IntS, IntS)     # (Y, M, D, h, m, s) -> epoch seconds (isdst=-1)
LT_HOUR = z3.Function("LT_HOUR", IntS, IntS)
LT_MIN = z3.Function("LT_MIN", IntS, IntS)
LT_OK = z3.Function("LT_OK", IntS, z3.BoolSort())


class SymTime:
    """datetime.time with second resolution"""
    def __init__(self, h, m, s=0):
        self.h, self.m, self.s = h, m, s

    def sod(self):
        return simp(zi(self.h) * 3600 + zi(self.m) * 60 + zi(self.s))


class SymDateTime:
    """datetime.datetime: epoch day (days since 1970-01-01) and second of day; `clock` names the clock it came from.
    hms: optional (h, m, s) components with sod = 3600 h + 60 m + s (keeps formulas free of div/mod)"""
    def __init__(self, day, sod, clock=None, hms=None):
        self.day, self.sod, self.clock, self.hms = day, sod, clock, hms

    def parts(self):
        if self.hms is not None:
            return self.hms
        sod = zi(self.sod)
        return simp(sod / 3600), simp((sod / 60) % 60), simp(sod % 60)

    def total(self):
        return simp(zi(self.day) * 86400 + zi(self.sod))


class SymTimedelta:
    def __init__(self, secs):
        self.secs = secs


class StructTime:
    def __init__(self, **f):
        self.f = f


class OpaqueCrc:
    pass


_CRC_MEMO = {}


def crc_hqx(ip, args, kw, ctx):
    data, init = args
    ctx.used_models.add("binascii.crc_hqx: uninterpreted CRC(bytes, init) with 0 <= CRC < 65536 (fold contract validated natively)")
    if isinstance(data, bytes) and not isz(init):
        import binascii
        return binascii.crc_hqx(data, init)
    s = seqops.concretize(Seq.of(data), ctx)
    if s.fixed():
        s = Seq(s.kind, [Elems(s.terms())])
    # fold law: crc(a ++ b, v) = crc(b, crc(a, v)); one uninterpreted function per fixed arity / per opaque segment
    r = zi(init)
    for g in s.segs:
        if isinstance(g, Elems):
            r = crc_fn(len(g.terms))(*[zi(t) for t in g.terms], r)
        else:
            r = crcg_fn(g.key)(zi(g.off), zi(g.length), r)
        ctx.fact(z3.And(r >= 0, r < 65536))
    if not s.segs:
        r = simp(r % 65536)
    ctx.fact(z3.And(r >= 0, r < 65536))
    return r


def struct_pack(ip, args, kw, ctx):
    fmt = args[0]
    if not isinstance(fmt, str):
        raise _uns("symbolic struct format")
    ctx.used_models.add("struct.pack for <I >I <L >L <H >H: range check then 4/2 bytes in the stated order")
    table = {"<I": (4, "le"), ">I": (4, "be"), "<L": (4, "le"), ">L": (4, "be"), "<H": (2, "le"), ">H": (2, "be"),
             "!I": (4, "be"), "!H": (2, "be"), "<i": None}
    if fmt not in table or table[fmt] is None or len(args) != 2:
        if all(not isz(a) and not isinstance(a, Seq) for a in args[1:]):
            import struct
            try:
                return struct.pack(fmt, *args[1:])
            except struct.error as e:
                _raise("struct.error", str(e))
        raise _uns(f"struct.pack format {fmt}")
    n, order = table[fmt]
    v = args[1]
    if is_symreal(v) or isinstance(v, float):
        _raise("struct.error", "required argument is not an integer")
    if isinstance(v, (str, bytes, Seq)) or v is None:
        _raise("struct.error", "required argument is not an integer")
    if not isz(v):
        import struct
        try:
            return struct.pack(fmt, v)
        except struct.error as e:
            _raise("struct.error", str(e))
    from .sym import besum_of
    be = besum_of(v)
    if be is not None and len(be) <= n and all(ctx.entails(z3.And(zi(b) >= 0, zi(b) <= 255)) for b in be if isz(b)):
        bs = [0] * (n - len(be)) + list(be)
        if order == "le":
            bs = list(reversed(bs))
        return Seq('bytes', [Elems(bs)])
    inr = simp(z3.And(v >= 0, v < 256 ** n))
    if not ctx.branch(inr):
        _raise("struct.error", "argument out of range")
    from .sym import int_bytes
    bs = int_bytes(v, n)
    if order == "be":
        bs = list(reversed(bs))
    return Seq('bytes', [Elems(bs)])


def struct_unpack(ip, args, kw, ctx):
    fmt, data = args[0], args[1]
    if not isinstance(fmt, str):
        raise _uns("symbolic struct format")
    table = {"<I": (4, "le", False), ">I": (4, "be", False), "<L": (4, "le", False), ">L": (4, "be", False), "!I": (4, "be", False),
             "<H": (2, "le", False), ">H": (2, "be", False), "!H": (2, "be", False), "<h": (2, "le", True), ">h": (2, "be", True),
             "<i": (4, "le", True), ">i": (4, "be", True), "<l": (4, "le", True), ">l": (4, "be", True), "<B": (1, "le", False),
             ">B": (1, "le", False), "B": (1, "le", False), "<b": (1, "le", True)}
    if isinstance(data, bytes):
        import struct
        try:
            return struct.unpack(fmt, data)
        except struct.error as e:
            _raise("struct.error", str(e))
    if fmt not in table:
        raise _uns(f"struct.unpack format {fmt}")
    n, order, signed = table[fmt]
    ctx.used_models.add("struct.unpack for one fixed-width integer: struct.error unless the buffer has exactly that size")
    sq = seqops.concretize(Seq.of(data), ctx)
    L = sq.length()
    if isz(L):
        if not ctx.branch(simp(L == n)):
            _raise("struct.error", "unpack requires a buffer of %d bytes" % n)
        sq = seqops.concretize(sq, ctx)
    elif L != n:
        _raise("struct.error", "unpack requires a buffer of %d bytes" % n)
    ts = sq.terms()
    if order == "be":
        ts = list(reversed(ts))
    from .sym import le_value
    v = le_value(ts)
    if signed:
        v = simp(z3.If(zi(v) >= 256 ** n // 2, zi(v) - 256 ** n, zi(v))) if isz(v) else (v - 256 ** n if v >= 256 ** n // 2 else v)
    return (v,)


def b_len(ip, args, kw, ctx):
    v = args[0]
    if isinstance(v, (str, bytes, tuple, list, dict, set)):
        return len(v)
    if isinstance(v, Seq):
        return v.length()
    if isinstance(v, PyList):
        return len(v.items)
    if isinstance(v, PyDict):
        return len(v.d)
    if isinstance(v, PySet):
        if getattr(v, "deferred", None) is not None:
            from .schedmodel import sched_method
            return sched_method(ip, v.deferred, "__len__", [], {}, ctx)
        return len(v.s)
    for mm in ip.method_models:
        r = mm(ip, v, "__len__", [], {}, ctx)
        if r is not NotImplemented:
            return r
    if isinstance(v, (int, float)) or isz(v) or v is None or isinstance(v, enum.Enum):
        _raise("TypeError", "object has no len()")
    raise _uns(f"len of {type(v).__name__}")


def b_int(ip, args, kw, ctx):
    if not args:
        return 0
    v = args[0]
    base = args[1] if len(args) > 1 else kw.get("base")
    if base is not None:
        base = ip.need_concrete_int(base, ctx)
        if isinstance(v, (str, bytes)):
            try:
                return int(v, base)
            except ValueError:
                _raise("ValueError", "invalid literal for int()")
        if isinstance(v, Seq):
            return seqops.seq_int(v, base, ctx)
        _raise("TypeError", "int() can't convert non-string with explicit base")
    if isinstance(v, bool):
        return int(v)
    if isinstance(v, int):
        return v
    if is_symint(v):
        return v
    if is_symbool(v):
        return z3.If(v, 1, 0)
    if isinstance(v, float):
        return int(v)
    if isinstance(v, Rat):
        n = zi(v.n)
        if v.d == 1:
            return v.n
        return simp(z3.If(n >= 0, n / v.d, -((-n) / v.d)))
    if is_symreal(v):
        # truncation toward zero
        ctx.used_models.add("int(float): truncation toward zero on the real-number model")
        f = z3.ToInt(v)
        return simp(z3.If(v >= 0, f, z3.If(z3.ToReal(f) == v, f, f + 1)))
    if isinstance(v, (str, bytes)):
        try:
            return int(v)
        except ValueError:
            _raise("ValueError", "invalid literal for int()")
    if isinstance(v, Seq):
        return seqops.seq_int(v, 10, ctx)
    if v is None:
        _raise("TypeError", "int() argument must be a string or a number, not NoneType")
    for mm in ip.method_models:
        r = mm(ip, v, "__int__", [], {}, ctx)
        if r is not NotImplemented:
            return r
    raise _uns(f"int of {type(v).__name__}")


def b_float(ip, args, kw, ctx):
    v = args[0]
    if isinstance(v, (int, float)) and not isinstance(v, bool):
        return float(v)
    if is_symint(v):
        return Rat(v, 1)
    if is_symreal(v) or isinstance(v, Rat):
        return v
    raise _uns("float()")


def b_str(ip, args, kw, ctx):
    if not args:
        return ""
    v = args[0]
    if isinstance(v, (str, Seq)) and (isinstance(v, str) or v.kind == 'str'):
        return v
    if isinstance(v, bool) or v is None or isinstance(v, (int, float, enum.Enum)):
        return str(v)
    if is_symint(v):
        return seqops.str_of_int(v, ctx)
    for mm in ip.method_models:
        r = mm(ip, v, "__str__", [], {}, ctx)
        if r is not NotImplemented:
            return r
    if isinstance(v, ExcVal):
        if len(v.args) == 1:
            return b_str(ip, [v.args[0]], {}, ctx)
        return "exception"
    raise _uns(f"str of {type(v).__name__}")


def b_divmod(ip, args, kw, ctx):
    a, b = args
    if not isz(a) and not isz(b) and not isinstance(a, Rat) and not isinstance(b, Rat):
        try:
            return divmod(a, b)
        except ZeroDivisionError:
            _raise("ZeroDivisionError")
    if isinstance(a, Rat):
        bc = b if isinstance(b, (int, float)) and not isinstance(b, bool) else None
        if bc is None or bc <= 0 or bc != int(bc):
            raise _uns("divmod of a quotient by a non-constant")
        bc = int(bc)
        q = simp(zi(a.n) / (a.d * bc))
        return (Rat(q, 1), Rat(simp(zi(a.n) - bc * a.d * q), a.d))
    if is_symreal(a) or isinstance(a, float) or is_symreal(b) or isinstance(b, float):
        bc = b if isinstance(b, (int, float)) else None
        if bc is None or bc <= 0 or bc != int(bc):
            raise _uns("float divmod by a non-constant")
        ctx.used_models.add("float divmod(x, c): q = floor(x/c), r = x - c q on the real-number model")
        ar = _I()._toreal(a)
        q = z3.ToInt(ar / int(bc))
        return (z3.ToReal(q), simp(ar - int(bc) * z3.ToReal(q)))
    bc = as_const(b)
    if bc is None or bc <= 0:
        raise _uns("divmod by non-constant or non-positive")
    return (simp(zi(a) / bc), simp(zi(a) % bc))


def b_round(ip, args, kw, ctx):
    x = args[0]
    nd = args[1] if len(args) > 1 else kw.get("ndigits")
    if not isz(x) and not isz(nd) and not isinstance(x, Rat):
        return round(x, nd) if nd is not None else round(x)
    if isinstance(x, Rat) and nd is None:
        x = x.real()
    if nd is None:
        if is_symint(x):
            return x
        ctx.used_models.add("round(x): integer ROUND0(x) with |ROUND0(x) - x| <= 1/2")
        r = ROUND0(x)
        ctx.fact(z3.And(z3.ToReal(r) - x <= z3.RealVal("1/2"), x - z3.ToReal(r) <= z3.RealVal("1/2")))
        return r
    if nd == 1:
        ctx.used_models.add("round(x, 1): uninterpreted ROUND1(x) (validated on the whole 16-bit domain of watts)")
        return ROUND1(simp(_I()._toreal(x)))
    raise _uns("round with ndigits")


def b_getattr(ip, args, kw, ctx):
    from .interp import PyExc
    if len(args) not in (2, 3) or not isinstance(args[1], str):
        raise _uns("getattr with a computed attribute name")
    try:
        v = ip.getattr(args[0], args[1], ctx)
    except PyExc as e:
        if _exc_isinst(e.exc.cls, "AttributeError") and len(args) == 3:
            return args[2]
        raise
    if isinstance(v, _I().MethodRef) and len(args) == 3:
        raise _uns("getattr with a default on a builtin value")
    return v


def b_isinstance(ip, args, kw, ctx):
    v, c = args
    cs = c if isinstance(c, tuple) else (c,)
    I = _I()
    for c in cs:
        if isinstance(c, I.Builtin) and c.pytype is not None:
            c = c.pytype
        if isinstance(c, I.ClassInfo) if hasattr(I, "ClassInfo") else False:
            pass
        from .loader import ClassInfo
        if isinstance(c, ClassInfo):
            if isinstance(v, Obj) and v.cls.is_subclass_of(c):
                return True
            continue
        if isinstance(c, I.ExcClass):
            if isinstance(v, ExcVal) and _exc_isinst(v.cls, c.name):
                return True
            continue
        if isinstance(c, type):
            if issubclass(c, enum.Enum):
                if isinstance(v, c) or (isinstance(v, SymEnum) and v.cls is c):
                    return True
                continue
            if c is str:
                if isinstance(v, str) or (isinstance(v, Seq) and v.kind == 'str'):
                    return True
                continue
            if c is bytes:
                if isinstance(v, bytes) or (isinstance(v, Seq) and v.kind == 'bytes'):
                    return True
                continue
            if c is int:
                if isinstance(v, int) or is_symint(v) or is_symbool(v):
                    return True
                continue
            if c is bool:
                if isinstance(v, bool) or is_symbool(v):
                    return True
                continue
            if c is float:
                if isinstance(v, float) or is_symreal(v):
                    return True
                continue
            if c is set:
                if isinstance(v, PySet):
                    return True
                continue
            if c is list:
                if isinstance(v, PyList):
                    return True
                continue
            if c is dict:
                if isinstance(v, PyDict):
                    return True
                continue
            if c is tuple:
                if isinstance(v, tuple):
                    return True
                continue
        raise _uns(f"isinstance against {c}")
    return False


def _exc_isinst(a, b):
    from .sym import exc_isinstance
    return exc_isinstance(a, b)


def b_issubclass(ip, args, kw, ctx):
    a, b = args
    I = _I()
    bs = b if isinstance(b, tuple) else (b,)
    if isinstance(a, I.ExcClass):
        for c in bs:
            if not isinstance(c, I.ExcClass):
                raise _uns("issubclass against a non-exception class")
            if _exc_isinst(a.name, c.name):
                return True
        return False
    raise _uns("issubclass on " + type(a).__name__)


def b_type(ip, args, kw, ctx):
    v = args[0]
    if isinstance(v, Obj):
        return v.cls
    if isinstance(v, enum.Enum):
        return type(v)
    if isinstance(v, SymEnum):
        return v.cls
    if isinstance(v, PySet):
        return set
    if isinstance(v, PyList):
        return list
    if isinstance(v, PyDict):
        return dict
    if isinstance(v, Seq):
        return str if v.kind == 'str' else bytes
    if is_symint(v):
        return int
    if is_symbool(v):
        return bool
    if is_symreal(v):
        return float
    for mm in ip.method_models:
        r = mm(ip, v, "__type__", [], {}, ctx)
        if r is not NotImplemented:
            return r
    if isinstance(v, (int, str, bytes, float, tuple, bool)) or v is None:
        return type(v)
    raise _uns(f"type of {type(v).__name__}")


def b_hasattr(ip, args, kw, ctx):
    o, name = args
    I = _I()
    try:
        v = ip.getattr(o, name, ctx)
    except I.PyExc as pe:
        if _exc_isinst(pe.exc.cls, "AttributeError"):
            return False
        raise
    if isinstance(v, I.MethodRef):
        raise _uns("hasattr on a builtin value")
    return True


def _ordered_items(ip, v, ctx):
    """items + whether the order is unspecified (set iteration)"""
    items = ip.iterate(v, ctx)
    unordered = (isinstance(v, (PySet, set, frozenset)) and len(items) > 1) or \
                (isinstance(v, PyList) and getattr(v, "unordered", False))
    return items, unordered


def _mk_list(items, unordered):
    l = PyList(items)
    if unordered:
        l.unordered = True
    return l


def b_map(ip, args, kw, ctx):
    f = args[0]
    if len(args) != 2:
        raise _uns("map with several iterables")
    items, uno = _ordered_items(ip, args[1], ctx)
    return _mk_list([ip.call(f, [x], {}, ctx) for x in items], uno)


def b_filter(ip, args, kw, ctx):
    f, it = args
    items, uno = _ordered_items(ip, it, ctx)
    out = []
    for x in items:
        r = ip.call(f, [x], {}, ctx) if f is not None else x
        if ctx.branch(ip.truth(r, ctx)):
            out.append(x)
    return _mk_list(out, uno)


def b_list(ip, args, kw, ctx):
    if not args:
        return PyList([])
    items, uno = _ordered_items(ip, args[0], ctx)
    return _mk_list(items, uno)


def b_tuple(ip, args, kw, ctx):
    if not args:
        return ()
    items, uno = _ordered_items(ip, args[0], ctx)
    if uno:
        raise _uns("tuple() of a set: order-dependent")
    return tuple(items)


def b_dict(ip, args, kw, ctx):
    d = PyDict()
    if args:
        src = args[0]
        if isinstance(src, PyDict):
            d.d.update(src.d)
        else:
            for it in ip.iterate(src, ctx):
                kv = ip.iterate(it, ctx)
                if len(kv) != 2:
                    _raise("ValueError", "dictionary update sequence element")
                d.d[ip.concrete_key(kv[0], ctx)] = kv[1]
    for k, v in kw.items():
        d.d[k] = v
    return d


class SymSetCard:
    """set(xs) of a symbolic enum sequence: only its cardinality is modelled"""
    def __init__(self, card):
        self.card = card


def b_set(ip, args, kw, ctx):
    if not args:
        return PySet()
    src = args[0]
    if isinstance(src, SymEnumList):
        return src.as_set(ctx)
    items = ip.iterate(src, ctx)
    if any(isinstance(x, SymEnum) for x in items) and len(items) <= 3:
        # short sequences: decide each member by a path fork (at most 7^3 paths) and build the concrete set
        out = set()
        for x in items:
            if isinstance(x, SymEnum):
                k = ctx.choose([zi(x.idx) == i for i in range(len(x.members))])
                out.add(x.members[k])
            else:
                out.add(ip.concrete_key(x, ctx))
        return PySet(out)
    if any(isinstance(x, SymEnum) for x in items):
        # number of distinct members
        ctx.used_models.add("set() of enum members: cardinality = number of distinct members")
        idx = [zi(x.idx) if isinstance(x, SymEnum) else z3.IntVal(list(type(x)).index(x)) for x in items]
        n = len(items)
        card = z3.Sum([z3.If(z3.And([idx[i] != idx[j] for j in range(i)]) if i else z3.BoolVal(True), 1, 0)
                       for i in range(n)])
        return SymSetCard(simp(card))
    return PySet([ip.concrete_key(x, ctx) for x in items])


class SymEnumList:
    """a sequence of enum members of symbolic length n >= lo: only len() and set() are supported (pigeonhole)"""
    def __init__(self, cls, n):
        self.cls = cls
        self.n = n

    def as_set(self, ctx):
        ctx.used_models.add("set() of a sequence over a finite Enum: 1 <= |set| <= min(len, number of members)")
        c = ctx.fresh_int("card", 0, len(list(self.cls)))
        ctx.fact(z3.And(c <= self.n, z3.Implies(self.n >= 1, c >= 1)))
        return SymSetCard(c)


def b_sum(ip, args, kw, ctx):
    items = ip.iterate(args[0], ctx)
    tot = args[1] if len(args) > 1 else 0
    for x in items:
        tot = ip.binop(_ADD, tot, x, ctx)
    return tot


import ast as _ast
_ADD = _ast.Add()


def b_sorted(ip, args, kw, ctx):
    items = ip.iterate(args[0], ctx)
    if kw:
        raise _uns("sorted with key")
    return PyList(sort_values(ip, items, ctx))


def sort_values(ip, items, ctx):
    if all(not isz(x) and not isinstance(x, Seq) for x in items):
        try:
            return sorted(items)
        except TypeError:
            _raise("TypeError", "unorderable")
    # insertion sort with path forks (small lists only)
    if len(items) > 8:
        raise _uns("sorting more than 8 symbolic values")
    out = []
    for x in items:
        pos = len(out)
        for i, y in enumerate(out):
            lt = ip.compare(_ast.Lt(), x, y, ctx)
            if ctx.branch(ip.truth(lt, ctx)):
                pos = i
                break
        out.insert(pos, x)
    return out


def b_min(ip, args, kw, ctx):
    items = ip.iterate(args[0], ctx) if len(args) == 1 else list(args)
    cur = items[0]
    for x in items[1:]:
        if ctx.branch(ip.truth(ip.compare(_ast.Lt(), x, cur, ctx), ctx)):
            cur = x
    return cur


def b_max(ip, args, kw, ctx):
    items = ip.iterate(args[0], ctx) if len(args) == 1 else list(args)
    cur = items[0]
    for x in items[1:]:
        if ctx.branch(ip.truth(ip.compare(_ast.Gt(), x, cur, ctx), ctx)):
            cur = x
    return cur


_NORM_MEMO = {}


def b_normalize(ip, args, kw, ctx):
    """unicodedata.normalize(form, s): concrete on concrete text; for symbolic text an opaque text that is a function of
    (form, s) - normal forms may change the code points and the length of a text (over-approximation: nothing else is known)"""
    import unicodedata
    from .sym import array_gen, char_fact, fresh_name
    form, s_ = args
    if isinstance(form, str) and isinstance(s_, str):
        return unicodedata.normalize(form, s_)
    if not isinstance(form, str):
        raise _uns("unicodedata.normalize with a symbolic form")
    sq = Seq.of(s_)
    key = (form, tuple((tuple(g.key), str(g.off), str(g.length)) if isinstance(g, Gen) else tuple(str(t) for t in g.terms) for g in sq.segs))
    if key not in _NORM_MEMO:
        L = z3.Int(fresh_name("normlen"))
        _NORM_MEMO[key] = (L, array_gen(fresh_name("norm"), L, (), char_fact))
    L, g = _NORM_MEMO[key]
    ctx.fact(L >= 0)
    ctx.used_models.add("unicodedata.normalize: the result is an (uninterpreted) function of form and text; its length is not known")
    return Seq('str', [g])


def b_range(ip, args, kw, ctx):
    if len(args) == 3 and not isz(args[0]) and not isz(args[2]) and isz(args[1]) and args[2] > 0:
        # range(a, symbolic stop, step): fork on the (small) number of iterations
        a, stop, step = args
        conds = [stop <= a] + [z3.And(stop > a + (k - 1) * step, stop <= a + k * step) for k in range(1, 9)] + [stop > a + 8 * step]
        k = ctx.choose([simp(c) for c in conds])
        if k == 9:
            raise _uns("range() with a symbolic bound needing more than 8 iterations")
        return range(a, a + k * step, step)
    return range(*[ip.need_concrete_int(a, ctx) for a in args])


def b_bytes(ip, args, kw, ctx):
    if not args:
        return b""
    v = args[0]
    if isinstance(v, (PyList, tuple, list)):
        items = ip.iterate(v, ctx)
        if all(isinstance(x, int) for x in items):
            try:
                return bytes(items)
            except ValueError:
                _raise("ValueError", "bytes must be in range(0, 256)")
        for x in items:
            if isz(x):
                if not ctx.entails(z3.And(x >= 0, x <= 255)):
                    if not ctx.branch(simp(z3.And(x >= 0, x <= 255))):
                        _raise("ValueError", "bytes must be in range(0, 256)")
        return Seq('bytes', [Elems(items)])
    if isinstance(v, (bytes, Seq)):
        return v
    if isinstance(v, int):
        return bytes(v)
    raise _uns("bytes()")


def b_bool(ip, args, kw, ctx):
    return ip.truth(args[0], ctx) if args else False


def b_abs(ip, args, kw, ctx):
    v = args[0]
    if not isz(v):
        return abs(v)
    return simp(z3.If(v < 0, -v, v))


def _stepper(ip, v, ctx):
    """yields the elements of v one at a time; a generator expression is stepped lazily (consumers that stop early do not
    evaluate the remaining elements)"""
    from .sym import LazyList
    if isinstance(v, LazyList):
        while True:
            ok, x = v.step()
            if not ok:
                return
            yield x
    else:
        yield from ip.iterate(v, ctx)


def b_any(ip, args, kw, ctx):
    for x in _stepper(ip, args[0], ctx):
        if ctx.branch(ip.truth(x, ctx)):
            return True
    return False


def b_all(ip, args, kw, ctx):
    for x in _stepper(ip, args[0], ctx):
        if not ctx.branch(ip.truth(x, ctx)):
            return False
    return True


def b_next(ip, args, kw, ctx):
    from .sym import LazyList
    it = args[0]
    if not isinstance(it, LazyList):
        raise _uns("next() on something that is not a generator expression")
    ok, x = it.step()
    if ok:
        return x
    if len(args) > 1:
        return args[1]
    _raise("StopIteration", "")


def b_zip(ip, args, kw, ctx):
    lists = [ip.iterate(a, ctx) for a in args]
    return PyList([tuple(t) for t in zip(*lists)])


def b_enumerate(ip, args, kw, ctx):
    return PyList([(i, x) for i, x in enumerate(ip.iterate(args[0], ctx))])


class HashOf:
    """hash(x): only what was hashed is remembered"""
    def __init__(self, v):
        self.v = v


def b_hash(ip, args, kw, ctx):
    return HashOf(args[0])


def b_chr(ip, args, kw, ctx):
    v = args[0]
    if not isz(v):
        return chr(v)
    return Seq('str', [Elems([v])])


def b_ord(ip, args, kw, ctx):
    v = args[0]
    if isinstance(v, str):
        return ord(v)
    if isinstance(v, Seq) and v.fixed() and len(v.terms()) == 1:
        return v.terms()[0]
    raise _uns("ord()")


def b_partial(ip, args, kw, ctx):
    return _I().Partial(args[0], args[1:], kw)


def b_hexlify(ip, args, kw, ctx):
    v = args[0]
    if isinstance(v, bytes):
        import binascii
        return binascii.hexlify(v)
    if isinstance(v, str) or (isinstance(v, Seq) and v.kind == 'str'):
        _raise("TypeError", "a bytes-like object is required")
    if not isinstance(v, Seq):
        _raise("TypeError", "a bytes-like object is required")
    ctx.used_models.add("binascii.unhexlify/hexlify: nibble model")
    return seqops.hexlify(v, ctx)


def b_unhexlify(ip, args, kw, ctx):
    v = args[0]
    if isinstance(v, (str, bytes)):
        import binascii
        try:
            return binascii.unhexlify(v)
        except binascii.Error as e:
            _raise("binascii.Error", str(e))
        except ValueError as e:
            _raise("ValueError", str(e))
    if not isinstance(v, Seq):
        _raise("TypeError", "argument should be bytes, buffer or ASCII string")
    return seqops.unhexlify(v, ctx)


def b_inet_ntoa(ip, args, kw, ctx):
    v = args[0]
    if isinstance(v, bytes):
        import socket
        try:
            return socket.inet_ntoa(v)
        except OSError:
            _raise("OSError", "packed IP wrong length for inet_ntoa")
    s = seqops.concretize(Seq.of(v), ctx)
    if not s.fixed() or len(s.terms()) != 4:
        raise _uns("inet_ntoa on other than 4 bytes")
    ctx.used_models.add("socket.inet_ntoa: decimal dotted quad of the 4 bytes")
    out = ""
    for i, b in enumerate(s.terms()):
        if i:
            out = ip.add(out, ".", ctx)
        out = ip.add(out, seqops.str_of_int(b, ctx), ctx)
    return out


def b_warn(ip, args, kw, ctx):
    ctx.ghost.warnings.append(args[0] if args else None)
    ctx.ghost.events.append(("warn", args[0] if args else None))
    return None


def b_wrap(ip, args, kw, ctx):
    text, width = args[0], args[1] if len(args) > 1 else kw.get("width", 70)
    if isinstance(text, str) and not isz(width):
        import textwrap
        return PyList(textwrap.wrap(text, width))
    width = ip.need_concrete_int(width, ctx)
    s = seqops.concretize(Seq.of(text), ctx)
    if not s.fixed():
        raise _uns("textwrap.wrap on symbolic-length text")
    ts = s.terms()
    # model valid only for text without whitespace / hyphens (hex digits): consecutive chunks
    for t in ts:
        if isz(t):
            from .sym import _HEXCHAR, _tid
            if _tid(t) not in _HEXCHAR:
                raise _uns("textwrap.wrap on text not known to be hex digits")
        elif chr(t) not in "0123456789abcdef":
            raise _uns("textwrap.wrap on non-hex literal text")
    ctx.used_models.add("textwrap.wrap(hex text, n): consecutive n-character chunks")
    return PyList([Seq('str', [Elems(ts[i:i + width])]) for i in range(0, len(ts), width)])


def b_getLogger(ip, args, kw, ctx):
    return _I().EnvObj("logger")


def b_noop(ip, args, kw, ctx):
    return None


def b_re_match(ip, args, kw, ctx):
    pat, text = args[0], args[1]
    if isinstance(pat, str) and isinstance(text, str):
        import re
        m = re.match(pat, text)
        if m is None:
            return None
        return _I().EnvObj("match", groups=[m.group(0)] + list(m.groups()))
    raise _uns("re.match on symbolic text")


def b_suppress(ip, args, kw, ctx):
    I = _I()
    for c in args:
        if not isinstance(c, I.ExcClass):
            raise _uns("contextlib.suppress of something that is not an exception class")
    return I.EnvObj("suppress", classes=list(args))


def b_reversed(ip, args, kw, ctx):
    return PyList(list(reversed(ip.iterate(args[0], ctx))))


def b_slice(ip, args, kw, ctx):
    if kw or not 1 <= len(args) <= 3 or any(isz(a) for a in args):
        raise _uns("slice() with symbolic bounds")
    return slice(*args)


def b_reduce(ip, args, kw, ctx):
    f, it = args[0], args[1]
    items = ip.iterate(it, ctx)
    if len(args) > 2:
        acc = args[2]
    elif items:
        acc, items = items[0], items[1:]
    else:
        _raise("TypeError", "reduce() of empty iterable with no initial value")
    for x in items:
        acc = ip.call(f, [acc, x], {}, ctx)
    return acc


def b_op_add(ip, args, kw, ctx):
    return ip.add(args[0], args[1], ctx)


def b_attrgetter(ip, args, kw, ctx):
    if len(args) != 1 or not isinstance(args[0], str) or "." in args[0]:
        raise _uns("operator.attrgetter with several or dotted names")
    name = args[0]
    return _I().Builtin("attrgetter", lambda ip_, a, k, c: ip_.getattr(a[0], name, c))


def b_itemgetter(ip, args, kw, ctx):
    if len(args) != 1:
        raise _uns("operator.itemgetter with several items")
    key = args[0]
    return _I().Builtin("itemgetter", lambda ip_, a, k, c: ip_.getitem(a[0], key, c))


def b_re_compile(ip, args, kw, ctx):
    if kw or len(args) != 1 or not isinstance(args[0], str):
        raise _uns("re.compile with flags or a non-literal pattern")
    return _I().EnvObj("re_pattern", pattern=args[0])


def b_time_time(ip, args, kw, ctx):
    now = z3.Real(fresh_name("NOW"))
    ctx.ghost.clock_reads.append(("time.time", now))
    ctx.used_models.add("time.time(): fresh real NOW per call, recorded in ghost clock_reads")
    lo, hi = getattr(ctx, "now_range", (None, None))
    if lo is not None:
        ctx.fact(now >= lo)
    if hi is not None:
        ctx.fact(now <= hi)
    return now


# ------------------------------------------------------------------------------------------------
def seq_method(ip, o, name, args, kw, ctx):
    I = _I()
    if not isinstance(o, (str, bytes, Seq)):
        return NotImplemented
    if name in ("__getattr__",):
        return NotImplemented
    s = Seq.of(o)
    if name == "decode":
        if s.kind != 'bytes':
            _raise("AttributeError", "decode")
        codec = args[0] if args else kw.get("encoding", "utf-8")
        if not isinstance(codec, str) or codec.lower().replace("_", "-") not in ("utf-8", "utf8", "ascii", "us-ascii") or len(args) > 1 or "errors" in kw:
            raise _uns("decode codec / error handler")
        return seqops.decode_ascii_or_utf8(s, ctx, ascii_only=codec.lower().replace("_", "-") in ("ascii", "us-ascii"))
    if name == "encode":
        if s.kind != 'str':
            _raise("AttributeError", "encode")
        codec = args[0] if args else kw.get("encoding", "utf-8")
        if not isinstance(codec, str) or codec.lower().replace("_", "-") not in ("utf-8", "utf8") or len(args) > 1 or "errors" in kw:
            raise _uns("encode codec / error handler")
        return seqops.encode_utf8(s, ctx)
    if name == "format":
        return seqops.str_format(ip, o, args, kw, ctx)
    if name == "ljust":
        return seqops.ljust(s, args[0], args[1] if len(args) > 1 else (" " if s.kind == 'str' else b" "), ctx)
    if name == "rjust" or name == "zfill":
        fill = "0" if name == "zfill" else (args[1] if len(args) > 1 else " ")
        width = ip.need_concrete_int(args[0], ctx)
        s2 = seqops.concretize(s, ctx)
        L = s2.length()
        if isz(L):
            raise _uns("rjust on symbolic-length text")
        if L >= width:
            return s2
        return seq_concat(Seq.of(fill * (width - L)), s2)
    if name == "rstrip":
        if not args:
            raise _uns("rstrip() without argument")
        return seqops.rstrip_nul(s, args[0], ctx)
    if name == "upper":
        return seqops.upper(s, ctx)
    if name == "lower":
        return seqops.lower(s, ctx)
    if name == "isdigit":
        return seqops.isdigit(s, ctx)
    if name == "join":
        items = ip.iterate(args[0], ctx)
        return seqops.seq_join(ip, o, items, ctx)
    if name == "hex":
        return seqops.decode_ascii_or_utf8(seqops.hexlify(s, ctx), ctx)
    if name in ("startswith", "endswith"):
        p = Seq.of(args[0])
        s2 = seqops.concretize(s, ctx)
        n = p.length()
        if isz(n):
            raise _uns("startswith symbolic prefix")
        L = s2.length()
        if not isz(L) and L < n:
            return False
        if isz(L):
            if not ctx.branch(simp(L >= n)):
                return False
        part = seqops.seq_slice(s2, 0, n, ctx) if name == "startswith" else seqops.seq_slice(s2, simp(zi(L) - n) if isz(L) else L - n, None, ctx)
        return ip.equals(part, p, ctx)
    if name == "split":
        for mm in ip.method_models:
            if mm is seq_method:
                continue
            r = mm(ip, o, "split", args, kw, ctx)
            if r is not NotImplemented:
                return r
        raise _uns("split on symbolic text")
    if name == "__contains__":
        return seqops.seq_contains(s, args[0], ctx)
    if name == "__len__":
        return s.length()
    return NotImplemented


def list_method(ip, o, name, args, kw, ctx):
    if not isinstance(o, PyList):
        return NotImplemented
    if name == "append":
        o.items.append(args[0])
        return None
    if name == "pop":
        if not o.items:
            _raise("IndexError", "pop from empty list")
        if getattr(o, "unordered", False) and len(o.items) > 1:
            raise _uns("order-dependent use of set iteration order")
        i = ip.need_concrete_int(args[0], ctx) if args else -1
        try:
            return o.items.pop(i)
        except IndexError:
            _raise("IndexError", "pop index out of range")
    if name == "sort":
        if kw:
            raise _uns("sort with key")
        o.items[:] = sort_values(ip, o.items, ctx)
        if hasattr(o, "unordered"):
            o.unordered = False
        return None
    if name == "extend":
        o.items.extend(ip.iterate(args[0], ctx))
        return None
    if name == "insert":
        o.items.insert(ip.need_concrete_int(args[0], ctx), args[1])
        return None
    if name == "index":
        for i, x in enumerate(o.items):
            if ctx.branch(ip.truth(ip.equals(x, args[0], ctx), ctx)):
                return i
        _raise("ValueError", "not in list")
    if name == "copy":
        return PyList(o.items)
    if name == "reverse":
        o.items.reverse()
        return None
    return NotImplemented


def dict_method(ip, o, name, args, kw, ctx):
    if not isinstance(o, PyDict):
        return NotImplemented
    if name == "get":
        return ip.dict_lookup(o, args[0], ctx, default=args[1] if len(args) > 1 else None)
    if name == "keys":
        return PyList(list(o.d.keys()))
    if name == "values":
        return PyList(list(o.d.values()))
    if name == "items":
        return PyList(list(o.d.items()))
    if name == "setdefault":
        k = ip.concrete_key(args[0], ctx)
        if k not in o.d:
            o.d[k] = args[1] if len(args) > 1 else None
        return o.d[k]
    if name == "pop":
        k = args[0]
        if isinstance(k, Seq) and isinstance(k.to_python(), Seq):
            for kk in list(o.d.keys()):
                if ctx.branch(ip.truth(ip.equals(kk, k, ctx), ctx)):
                    return o.d.pop(kk)
            if len(args) > 1:
                return args[1]
            _raise("KeyError", "key")
        k = ip.concrete_key(k, ctx)
        if k in o.d:
            return o.d.pop(k)
        if len(args) > 1:
            return args[1]
        _raise("KeyError", k)
    if name == "update":
        src = args[0]
        if isinstance(src, PyDict):
            o.d.update(src.d)
            return None
        raise _uns("dict.update")
    if name == "clear":
        o.d.clear()
        return None
    if name == "copy":
        return PyDict(o.d)
    return NotImplemented


def set_method(ip, o, name, args, kw, ctx):
    if isinstance(o, SymSetCard):
        if name == "__len__":
            return o.card
        if name == "__bool__":
            return simp(o.card != 0)
        raise _uns(f"{name} on a cardinality-only set")
    if isinstance(o, SymEnumList):
        if name == "__len__":
            return o.n
        if name == "__bool__":
            return simp(zi(o.n) != 0)
        if name == "__type__":
            return list
        raise _uns(f"{name} on a symbolic-length enum sequence")
    if not isinstance(o, PySet):
        return NotImplemented
    if getattr(o, "deferred", None) is not None and name in ("__len__", "__bool__"):
        from .schedmodel import sched_method
        return sched_method(ip, o.deferred, name, args, kw, ctx)
    if name == "add":
        x = args[0]
        if isinstance(x, Obj):
            # user objects with __eq__/__hash__: deferred de-duplication (no path fork), see pyvc/schedmodel.py
            from .schedmodel import DeferredSet, sched_method
            d = getattr(o, "deferred", None)
            if d is None:
                if o.s:
                    raise _uns("mixing plain and object elements in a set")
                d = DeferredSet()
                o.deferred = d
            return sched_method(ip, d, "add", [x], {}, ctx)
        if isinstance(x, Seq) and isinstance(x.to_python(), Seq):
            for y in list(o.s):
                if ctx.branch(ip.truth(ip.equals(y, x, ctx), ctx)):
                    return None
            o.s.add(x)          # identity-hashed symbolic element
            return None
        o.s.add(ip.concrete_key(x, ctx))
        return None
    if name == "discard":
        o.s.discard(ip.concrete_key(args[0], ctx))
        return None
    if name == "__binop__":
        op, other, swapped = args
        if isinstance(other, PySet):
            if op == "BitOr":
                return PySet(o.s | other.s)
            if op == "BitAnd":
                return PySet(o.s & other.s)
            if op == "Sub":
                return PySet(other.s - o.s if swapped else o.s - other.s)
        return NotImplemented
    if name == "copy":
        return PySet(o.s)
    return NotImplemented


class ObjKey:
    """wrapper so that analysed-class instances can live in a PySet (identity hashing; equality is decided at add time)"""
    def __init__(self, obj):
        self.obj = obj

    def __hash__(self):
        return id(self.obj)

    def __eq__(self, other):
        return isinstance(other, ObjKey) and other.obj is self.obj


def env_method(ip, o, name, args, kw, ctx):
    I = _I()
    if not isinstance(o, I.EnvObj):
        return NotImplemented
    if o.kind == "logger":
        if name in ("debug", "info", "error", "critical", "warning", "exception", "log"):
            return None
        if name == "isEnabledFor":
            # the logging configuration belongs to the environment: either answer is possible
            ctx.used_models.add("logging: isEnabledFor() may answer either way (the log level is configured by the application)")
            return bool(ctx.fork(2))
        if name == "getEffectiveLevel":
            return [10, 20, 30, 40, 50][ctx.fork(5)]
        return NotImplemented
    if o.kind == "re_pattern":
        # a compiled pattern: pattern.match(text) == re.match(pattern_source, text) (the current re.match model, whichever it is)
        if name == "match" and not kw and len(args) == 1:
            return ip.ext_models["re.match"].fn(ip, [o.state["pattern"], args[0]], {}, ctx)
        if name == "__bool__":
            return True
        if name == "__getattr__":
            return NotImplemented
        raise _uns(f"{name} on a compiled pattern")
    if o.kind == "match":
        if name == "group":
            i = args[0] if args else 0
            return o.state["groups"][i]
        if name == "__bool__":
            return True
        return NotImplemented
    h = getattr(ip, "env_handlers", {}).get(o.kind)
    if h is not None:
        return h(ip, o, name, args, kw, ctx)
    return NotImplemented


def enum_method(ip, o, name, args, kw, ctx):
    if isinstance(o, type) and issubclass(o, enum.Enum):
        if name == "__iter__":
            return list(o)
        if name == "__contains__":
            x = args[0]
            return isinstance(x, o) or (isinstance(x, SymEnum) and x.cls is o)
    return NotImplemented


def install(ip):
    I = _I()
    B = I.Builtin
    b = ip.builtins
    for name, fn, pt in [
        ("len", b_len, None), ("int", b_int, int), ("float", b_float, float), ("str", b_str, str),
        ("divmod", b_divmod, None), ("round", b_round, None), ("isinstance", b_isinstance, None), ("getattr", b_getattr, None), ("issubclass", b_issubclass, None),
        ("type", b_type, type), ("hasattr", b_hasattr, None), ("map", b_map, None), ("filter", b_filter, None),
        ("list", b_list, list), ("tuple", b_tuple, tuple), ("dict", b_dict, dict), ("set", b_set, set),
        ("sum", b_sum, None), ("sorted", b_sorted, None), ("min", b_min, None), ("max", b_max, None),
        ("range", b_range, None), ("bytes", b_bytes, bytes), ("bool", b_bool, bool), ("abs", b_abs, None),
        ("any", b_any, None), ("all", b_all, None), ("next", b_next, None), ("reversed", b_reversed, None), ("slice", b_slice, None), ("zip", b_zip, None), ("enumerate", b_enumerate, None),
        ("hash", b_hash, None), ("chr", b_chr, None), ("ord", b_ord, None), ("print", b_noop, None),
    ]:
        b[name] = B(name, fn, pt)
    e = ip.ext_models
    e["binascii.hexlify"] = B("hexlify", b_hexlify)
    e["unicodedata.normalize"] = B("unicodedata.normalize", b_normalize)
    e["binascii.unhexlify"] = B("unhexlify", b_unhexlify)
    e["binascii.crc_hqx"] = B("crc_hqx", crc_hqx)
    e["struct.pack"] = B("pack", struct_pack)
    e["struct.unpack"] = B("unpack", struct_unpack)
    e["socket.inet_ntoa"] = B("inet_ntoa", b_inet_ntoa)
    e["socket.AF_INET"] = 2
    e["warnings.warn"] = B("warn", b_warn)
    e["textwrap.wrap"] = B("wrap", b_wrap)
    e["re.match"] = B("re.match", b_re_match)
    e["re.compile"] = B("re.compile", b_re_compile)
    e["sys.byteorder"] = I.HostChoice(["little", "big"])
    import errno as _errno
    for _n in dir(_errno):
        if _n.startswith("E") and isinstance(getattr(_errno, _n), int):
            e["errno." + _n] = getattr(_errno, _n)
    e["contextlib.suppress"] = B("suppress", b_suppress)
    e["functools.reduce"] = B("reduce", b_reduce)
    e["operator.add"] = B("operator.add", b_op_add)
    e["operator.attrgetter"] = B("attrgetter", b_attrgetter)
    e["operator.itemgetter"] = B("itemgetter", b_itemgetter)
    e["logging.getLogger"] = B("getLogger", b_getLogger)
    for lname, lv in (("DEBUG", 10), ("INFO", 20), ("WARNING", 30), ("ERROR", 40), ("CRITICAL", 50)):
        e["logging." + lname] = lv
    e["functools.partial"] = B("partial", b_partial)
    e["typing.final"] = B("final", lambda ip, a, k, c: a[0])
    for tname in ("Any", "Callable", "Dict", "List", "Optional", "Tuple", "Type", "Set", "Union"):
        e["typing." + tname] = ("typing", tname)
    e["types.TracebackType"] = ("typing", "TracebackType")
    e["abc.ABC"] = ("typing", "ABC")
    e["binascii.Error"] = I.ExcClass("binascii.Error")
    e["struct.error"] = I.ExcClass("struct.error")
    ip.method_models += [seq_method, list_method, dict_method, set_method, env_method, enum_method]
    from . import timemodels
    timemodels.install(ip)
