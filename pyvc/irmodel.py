"""Model of an arbitrary IR code set for C15/C16: the wave map is an UNINTERPRETED membership predicate and value
function over structured keys (literal prefix, optional decimal temperature, literal suffix), so that an obligation
discharged with it holds for every IR set, sparse or dense.

Two keys are the same string iff they have the same (prefix, suffix, has-temperature) skeleton and the same
temperature: a decimal number is delimited by non-digit characters, and the code under analysis only builds keys of
this shape (anything else is out of subset)."""
import z3

from .sym import isz, zi, simp, Seq, Elems, Gen, IntS, fresh_name, ExcVal


def _uns(msg):
    from .interp import Unsupported
    return Unsupported(msg)


class IRMap:
    def __init__(self, name):
        self.name = name
        self.skeletons = {}
        self.HAS = z3.Function(name + "$has", IntS, IntS, z3.BoolSort())
        self.PLEN = z3.Function(name + "$paralen", IntS, IntS, IntS)
        self.HLEN = z3.Function(name + "$hexlen", IntS, IntS, IntS)
        self.PCH = z3.Function(name + "$para", IntS, IntS, IntS, IntS)
        self.HCH = z3.Function(name + "$hex", IntS, IntS, IntS, IntS)
        self.preexisting = True

    def canon(self, key, ctx):
        """(skeleton id, temperature term) of a key string"""
        if isinstance(key, str):
            pre, temp, suf = key, None, ""
        else:
            pre, temp, suf, seen = "", None, "", False
            for g in Seq.of(key).segs:
                if isinstance(g, Elems):
                    if any(isz(t) for t in g.terms):
                        raise _uns("IR key with symbolic characters")
                    txt = "".join(chr(t) for t in g.terms)
                    if seen:
                        suf += txt
                    else:
                        pre += txt
                elif g.origin is not None and g.origin[0] == "dec" and not seen:
                    temp = g.origin[1]
                    seen = True
                else:
                    raise _uns("IR key of an unsupported shape")
        if temp is not None:
            if (pre and (pre[-1].isdigit() or pre[-1] == "-")) or (suf and suf[0].isdigit()):
                raise _uns("IR key whose number is not delimited")
        sk = (pre, suf, temp is not None)
        if sk not in self.skeletons:
            self.skeletons[sk] = len(self.skeletons)
        return self.skeletons[sk], (temp if temp is not None else z3.IntVal(0)), sk

    def has(self, key, ctx):
        sid, t, _ = self.canon(key, ctx)
        ctx.used_models.add("IR code set: uninterpreted membership / value functions over structured keys (holds for every set)")
        return self.HAS(z3.IntVal(sid), zi(t))

    def entry(self, key, ctx):
        sid, t, sk = self.canon(key, ctx)
        return IREntry(self, sid, t, sk)

    def text(self, which, sid, t, ctx):
        lenf, chf = (self.PLEN, self.PCH) if which == "Para" else (self.HLEN, self.HCH)
        L = lenf(z3.IntVal(sid), zi(t))
        # IR texts are non-empty ASCII; their joint length keeps the command within one frame (<= 2000 bytes)
        ctx.fact(z3.And(L >= 1, L <= 1000))
        g = Gen(L, lambda i, sid=sid, t=t: chf(z3.IntVal(sid), zi(t), i), (self.name, which, sid, str(simp(zi(t)))), 0, {"ascii"})
        return Seq('str', [g])


class IREntry:
    def __init__(self, m, sid, t, sk):
        self.m, self.sid, self.t, self.sk = m, sid, t, sk


def ir_method(ip, o, name, args, kw, ctx):
    from .interp import PyExc
    if isinstance(o, IRMap):
        if name == "__contains__":
            return o.has(args[0], ctx)
        if name == "__getitem__":
            if not ctx.branch(o.has(args[0], ctx)):
                raise PyExc(ExcVal("KeyError", ("ir key",)))
            return o.entry(args[0], ctx)
        if name == "get":
            if not ctx.branch(o.has(args[0], ctx)):
                return args[1] if len(args) > 1 else None
            return o.entry(args[0], ctx)
        if name == "__bool__":
            raise _uns("truth of the IR map")
        if name == "__setitem__":
            raise _uns("store into the abstract IR map")
        return NotImplemented
    if isinstance(o, IREntry):
        if name == "__getitem__":
            k = args[0]
            if k not in ("Para", "HexCode"):
                raise PyExc(ExcVal("KeyError", (k,)))
            return o.m.text(k, o.sid, o.t, ctx)
        if name == "__bool__":
            return True
        return NotImplemented
    return NotImplemented


def install(ip):
    ip.method_models.insert(0, ir_method)
