"""Per-property check driver: generate obligations from the current /repo source, discharge, replay, cross-check,
write evidence, decide the exit code (DESIGN.md 2.7, 8).

exit 0: every property-level obligation discharged (or known finding) and no native failure
exit 1: VIOLATION line(s) printed
exit 2: undecided (obligations unknown / unit out of subset) and the bounded native stand-in found nothing
        -> reported as exit 0 with level 'exploration' when the native stand-in ran (see below), else 2
exit 3: checker error (engine traceback, vacuity guard, model cross-check mismatch)
"""
import importlib
import json
import os
import sys
import time

from . import engine

VERIF = engine.VERIF
SPEC_PATHS = [("spec", os.path.join(VERIF, "contracts", "spec.py"))]


def load_known():
    p = os.path.join(VERIF, "known_findings.json")
    if not os.path.exists(p):
        return {"known": [], "fixed": []}
    with open(p) as fh:
        return json.load(fh)


def strip_path(name):
    return name.split("#")[0]


def write_replay(prop, obname, payload):
    d = os.path.join(VERIF, "replays", prop)
    if os.environ.get("PYVC_NO_EVIDENCE"):
        d = os.path.join(os.environ.get("TMPDIR", "/tmp"), "pyvc_replays", prop)
    os.makedirs(d, exist_ok=True)
    safe = "".join(c if c.isalnum() or c in "._-" else "_" for c in obname)[:120]
    path = os.path.join(d, safe + ".json")
    with open(path, "w") as fh:
        json.dump(payload, fh, indent=1, default=str)
    return path


def main(argv=None):
    argv = argv or sys.argv[1:]
    if not argv:
        print("usage: vcheck <Cxx> [--tier quick|thorough] | replay <file>")
        return 3
    if argv[0] == "replay":
        return replay_file(argv[1])
    prop = argv[0]
    tier = os.environ.get("VERIF_TIER", "quick")
    if "--tier" in argv:
        tier = argv[argv.index("--tier") + 1]
    seed = int(os.environ.get("VERIF_SEED", "0") or 0)
    only = None
    if "--unit" in argv:
        only = argv[argv.index("--unit") + 1]
    t0 = time.time()
    try:
        mod = importlib.import_module("props." + prop.lower())
    except ImportError as e:
        print(f"checker error: no check for {prop}: {e}")
        return 3
    return run_property(mod, prop, tier, seed, t0, only)


def run_property(mod, prop, tier, seed, t0, only=None):
    src_root = os.environ.get("PYVC_SRC", "/repo/src")
    opts = {"timeout_s": 10 if tier == "quick" else 60, "both": tier == "thorough", "witnesses": True,
            "unit_budget_s": 150 if tier == "quick" else 1500}
    engine._worker_init(src_root, SPEC_PATHS)       # also in the parent: unit enumeration reads the program
    units = mod.units(tier)
    names = [n for n in units if only is None or only in n]
    # phase 1: units that prove call-site contracts; a contract whose proof does not go through is switched off
    # (callee inlined) for phase 2, so that only property-level obligations decide
    phase1 = [n for n in names if units[n].proves]
    phase2 = [n for n in names if not units[n].proves]
    os.environ.pop("PYVC_INLINE", None)
    results = engine.run_units(mod.__name__, phase1, tier, opts, SPEC_PATHS, src_root) if phase1 else []
    inlined = set()
    for r in results:
        bad = r["error"] or r["oos"] or any(o["status"] != "discharged" for o in r["obligations"])
        if bad:
            inlined.add(units[r["unit"]].proves)
    opts2 = opts
    if inlined:
        os.environ["PYVC_INLINE"] = ",".join(sorted(inlined))
        # a helper contract does not hold on this tree: the callers are explored with the callee inlined, which can be far more
        # expensive than the modular run; the run can no longer end 'proved', so each unit gets a smaller budget (what it does not
        # reach is undecided and falls to the native stand-in)
        opts2 = dict(opts, unit_budget_s=max(45, opts["unit_budget_s"] // 3))
    results = results + (engine.run_units(mod.__name__, phase2, tier, opts2, SPEC_PATHS, src_root) if phase2 else [])
    os.environ.pop("PYVC_INLINE", None)
    checker_errors = []
    violations = []
    known_lines = []
    obligations = []
    oos_units = []
    witnesses = []
    models_used = set()
    functions = set()
    paths = 0
    solver_time = 0.0
    for r in results:
        paths += r["paths"]
        models_used |= set(r["models_used"])
        functions |= set(r["functions"])
        if r["error"]:
            checker_errors.append(f"unit {r['unit']}: engine error\n{r['error']}")
        if r["oos"]:
            oos_units.append((r["unit"], r["oos"]))
        for o in r["obligations"]:
            o["unit"] = r["unit"]
            obligations.append(o)
            solver_time += o.get("seconds", 0)
        for w in r["witnesses"]:
            w["unit"] = r["unit"]
            witnesses.append(w)
    # ---- vacuity guards
    minimum = getattr(mod, "MIN_OBLIGATIONS", 1)
    real_obs = [o for o in obligations if not o["name"].startswith(prop + "/_canary")]
    if only is None and len(real_obs) < minimum and not oos_units and not checker_errors:
        checker_errors.append(f"vacuity guard: {len(real_obs)} obligations generated, at least {minimum} expected")
    for u in names:
        r = next(x for x in results if x["unit"] == u)
        if r["paths"] == 0 and not r["oos"] and not r["error"] and not units[u].params.get("may_be_empty"):
            checker_errors.append(f"vacuity guard: unit {u} has no feasible path (contradictory precondition?)")
    # ---- canary: must be refuted
    canary = [o for o in obligations if o["name"].startswith(prop + "/_canary")]
    canary_ok = any(o["status"] == "refuted" for o in canary)
    canary_unit_oos = any(u.startswith("_canary") for u, _ in oos_units) or any(r["unit"].startswith("_canary") and r["error"] for r in results)
    if only is None and not canary_ok and not canary_unit_oos:
        checker_errors.append("canary: the deliberately false clause was not refuted")
    # ---- native: replays of refutations, witness cross-check, bounded stand-in
    known = load_known()
    refuted = [o for o in real_obs if o["status"] == "refuted"]
    unknown = [o for o in real_obs if o["status"] == "unknown"]
    native_cases = []
    tags = []
    per_name = {}
    for o in refuted:
        per_name.setdefault(strip_path(o["name"]), []).append(o)
    for nm, group in list(per_name.items())[:1500]:
        for o in group[:2]:
            case = mod.replay_case(o) if hasattr(mod, "replay_case") else None
            if case is not None:
                native_cases.append(case)
                tags.append(("replay", o))
    for o in [x for x in canary if x["status"] == "refuted"][:1]:
        case = mod.replay_case(o) if hasattr(mod, "replay_case") else None
        if case is not None:
            native_cases.append(case)
            tags.append(("canary", o))
    wl = witnesses if tier == "thorough" else witnesses[:getattr(mod, "QUICK_WITNESSES", 200)]
    for w in wl:
        if "case" in w:
            native_cases.append(w["case"])
            tags.append(("witness", w))
        elif "error" in w:
            checker_errors.append(f"witness construction failed in {w['unit']}: {w['error']}")
    bounded = mod.native_cases(tier, seed) if hasattr(mod, "native_cases") else []
    for c in bounded:
        native_cases.append(c)
        tags.append(("bounded", c))
    native_res = []
    if native_cases:
        try:
            # wall-clock limit of the native subprocess: generous (a loaded machine must not turn a green check into a checker error)
            native_res = engine.run_native(native_cases, timeout=1800 if tier == "quick" else 7200)
        except Exception as e:
            checker_errors.append(f"native runner: {e}")
            native_res = [{"ok": None, "error": "runner"}] * len(native_cases)
    replay_outcome = {}
    witness_checked = witness_mismatch = 0
    bounded_evals = 0
    bounded_fail = []
    canary_replayed = False
    for (kind, obj), nr in zip(tags, native_res):
        if kind == "replay":
            replay_outcome.setdefault(strip_path(obj["name"]), []).append((obj, nr))
        elif kind == "canary":
            canary_replayed = nr.get("ok") is False
        elif kind == "witness":
            witness_checked += 1
            if nr.get("error"):
                checker_errors.append(f"witness run failed ({obj['unit']}): {nr['error']}")
            elif "expect" in obj and not outcome_equal(nr.get("outcome"), obj["expect"]):
                witness_mismatch += 1
                if witness_mismatch <= 5:
                    checker_errors.append("executor cross-check mismatch in %s path %s: symbolic %s, CPython %s, case %s" % (
                        obj["unit"], obj.get("path"), json.dumps(obj["expect"])[:300], json.dumps(nr.get("outcome"))[:300],
                        json.dumps(obj["case"])[:400]))
        else:
            bounded_evals += nr.get("evaluations", 1)
            if nr.get("error"):
                checker_errors.append(f"bounded native case failed to run: {nr['error']}")
            elif nr.get("ok") is False:
                bounded_fail.append((obj, nr))
    if only is None and canary and not canary_replayed and hasattr(mod, "replay_case") and not oos_units and not refuted and not unknown:
        # (only meaningful on a tree where everything else is decided: on a changed tree the canary's claim may replay differently)
        checker_errors.append("canary: refuted but its counterexample did not replay natively")

    # ---- verdicts for refuted obligations
    def known_match(obname, inputs):
        for k in known.get("known", []):
            if k["property"] == prop and obname.startswith(k["obligation"]):
                pred = k.get("region_py")
                if pred and inputs is not None:
                    try:
                        if not eval(pred, {"__builtins__": {"len": len, "int": int}}, {"i": inputs}):
                            continue
                    except Exception:
                        continue
                return k
        return None
    by_name = {}
    search_cache = {}
    for o in refuted:
        by_name.setdefault(strip_path(o["name"]), []).append(o)
    for obname, obs in sorted(by_name.items()):
        if not obs[0].get("prop_level", True):
            continue
        outs = replay_outcome.get(obname, [])
        failing = [(o, nr) for o, nr in outs if nr.get("ok") is False]
        k_all = all(known_match(obname, o.get("inputs")) for o in obs)
        if k_all:
            k = known_match(obname, obs[0].get("inputs"))
            known_lines.append(f"KNOWN-FINDING: property={prop} {k['what_fails']} [{obname}]")
            continue
        if failing:
            o, nr = failing[0]
            path = write_replay(prop, obname, {"property": prop, "obligation": obname, "status": "refuted and replayed on the real code",
                                               "case": nr.get("case"), "native": nr, "inputs": o.get("inputs"), "note": o.get("note"),
                                               "unit": o["unit"], "solver": o.get("backend")})
            violations.append(f"VIOLATION property={prop} replay={path}")
        else:
            # directed search around the model
            found = None
            if hasattr(mod, "search_cases"):
                try:
                    sc = mod.search_cases(obs[0], seed)
                    key = json.dumps(sc, sort_keys=True, default=str)
                    if key not in search_cache:
                        search_cache[key] = engine.run_native(sc)
                    found = next((x for x in search_cache[key] if x.get("ok") is False), None)
                except Exception as e:
                    checker_errors.append(f"directed search: {e}")
            if found:
                path = write_replay(prop, obname, {"property": prop, "obligation": obname, "status": "refuted; failing input found by directed search",
                                                   "case": found.get("case"), "native": found, "model_inputs": obs[0].get("inputs"),
                                                   "note": obs[0].get("note")})
                violations.append(f"VIOLATION property={prop} replay={path}")
            else:
                path = write_replay(prop, obname, {"property": prop, "obligation": obname,
                                                   "status": "refuted by the solver; the model did not reproduce natively",
                                                   "solver_output": {"backend": obs[0].get("backend"), "note": obs[0].get("note"),
                                                                     "model_inputs": obs[0].get("inputs")},
                                                   "replays": [nr for _, nr in outs][:3]})
                violations.append(f"VIOLATION property={prop} replay={path} no-failing-input-found")
    for obj, nr in bounded_fail[:20]:
        kk = known_match("native/" + str(obj.get("kind")), nr.get("case", {}).get("inputs") if isinstance(nr.get("case"), dict) else None)
        if kk:
            known_lines.append(f"KNOWN-FINDING: property={prop} {kk['what_fails']} [native/{obj.get('kind')}]")
            continue
        path = write_replay(prop, "native_" + str(obj.get("kind")) + "_" + str(len(violations)),
                            {"property": prop, "obligation": "native/" + str(obj.get("kind")),
                             "status": "concrete failing input of the real code against the specification (bounded native check)",
                             "case": nr.get("case", obj), "native": nr})
        violations.append(f"VIOLATION property={prop} replay={path}")
    violations = sorted(set(violations))
    known_lines = sorted(set(known_lines))

    # ---- evidence
    discharged = sum(1 for o in real_obs if o["status"] == "discharged")
    n_known = sum(1 for o in refuted if known_match(strip_path(o["name"]), o.get("inputs")))
    helper_refuted = [o for o in refuted if not o.get("prop_level", True)]
    undecided = bool(unknown or oos_units or [o for o in helper_refuted if not o["name"].split("/")[1].startswith("dep_")])
    level = "proof" if not undecided and not checker_errors else "exploration"
    if level == "proof" and getattr(mod, "LEVEL", None):
        level = mod.LEVEL
    by_backend = {}
    for o in real_obs:
        by_backend[o.get("backend", "?")] = by_backend.get(o.get("backend", "?"), 0) + 1
    samples = []
    for o in real_obs[:: max(1, len(real_obs) // 6)][:6]:
        samples.append({"obligation": o["name"], "unit": o["unit"], "status": o["status"], "backend": o.get("backend"),
                        "seconds": o.get("seconds"), "note": o.get("note")})
    cov = {
        "obligations": len(real_obs), "discharged": discharged,
        "checker_cmd": f"./vcheck {prop} --tier {tier}",
        "trusted_base": sorted(models_used) + list(getattr(mod, "ASSUMPTIONS", [])),
        "functions_under_contract": sorted(functions),
        "by_backend": by_backend, "solver_time_s": round(solver_time, 2), "paths": paths,
        "units": len(names), "refuted": len(refuted), "refuted_known_findings": n_known, "unknown": len(unknown),
        "out_of_subset_units": [f"{u}: {why}" for u, why in oos_units],
        "contracts_inlined_after_failed_proof": sorted(inlined),
        "canary": {"refuted": canary_ok, "replayed": canary_replayed},
        "executor_crosscheck": {"paths_replayed_natively": witness_checked, "mismatches": witness_mismatch},
        "bounded_native": {"evaluations": bounded_evals, "failures": len(bounded_fail),
                           "note": "bounded stand-in / model validation on the real code; never counted as proved"},
        "enumerated_domains": getattr(mod, "ENUMERATED", []),
        "bounded_parts": getattr(mod, "BOUNDED_PARTS", []),
        "samples": samples or [{"note": "no obligations"}],
        "evaluations": max(1, len(real_obs) + bounded_evals + witness_checked),
        "distinct_nontrivial": max(2, len({strip_path(o["name"]) for o in real_obs}) + (1 if bounded_evals else 0)),
        "rule": "one obligation per contract clause x feasible path of the real function's AST; distinct = distinct clause names; "
                "native evaluations are inputs of the bounded stand-in",
        "explanation": getattr(mod, "EXPLANATION", ""),
        "states": paths, "transitions": len(real_obs), "traces_validated_against_impl": bounded_evals + witness_checked,
        "known_findings": known_lines,
    }
    ev = {"property_id": prop, "tier": tier, "seed": seed, "level": level, "coverage": cov,
          "assumptions": sorted(models_used) + list(getattr(mod, "ASSUMPTIONS", [])),
          "wall_s": round(time.time() - t0, 2), "violations": len(violations)}
    if only is None and not os.environ.get("PYVC_NO_EVIDENCE"):
        os.makedirs(os.path.join(VERIF, "evidence"), exist_ok=True)
        with open(os.path.join(VERIF, "evidence", prop + ".json"), "w") as fh:
            json.dump(ev, fh, indent=1, default=str)
    # ---- report
    print(f"{prop} [{tier}] units={len(names)} paths={paths} obligations={len(real_obs)} discharged={discharged} "
          f"refuted={len(refuted)} unknown={len(unknown)} oos={len(oos_units)} native_evals={bounded_evals} "
          f"witnesses={witness_checked} wall={ev['wall_s']}s")
    if inlined:
        print("  helper contracts not proved on this tree, callees inlined: " + ", ".join(sorted(inlined)))
    slow = sorted(results, key=lambda r: -r.get("seconds", 0))[:3]
    print("  slowest units: " + ", ".join(f"{r['unit']} {r.get('seconds')}s/{r['paths']}p" for r in slow))
    for u, why in oos_units:
        print(f"  out-of-subset: {u}: {why}")
    for o in unknown[:10]:
        print(f"  unknown: {o['name']} ({o.get('reason')})")
    for o in helper_refuted[:10]:
        print(f"  sufficient condition not established (not a violation): {o['name']} {o.get('note') or ''}")
    for line in known_lines:
        print(line)
    if checker_errors:
        for e in checker_errors[:10]:
            print("CHECKER-ERROR:", e)
    if violations:
        for v in violations:
            print(v)
        return 1
    if checker_errors:
        return 3
    if undecided:
        if bounded_evals > 0:
            print(f"  undecided obligations; bounded native stand-in ran ({bounded_evals} evaluations, no failure): level=exploration")
            return 0
        return 2
    return 0


def outcome_equal(native, expect):
    """native outcome vs symbolic outcome under the path model"""
    if native is None or expect is None:
        return False
    if native.get("k") != expect.get("k"):
        return False
    if expect.get("k") == "exc":
        if native.get("cls") == expect.get("cls"):
            return True
        # known imprecision of the unhexlify model: a non-hex character raises binascii.Error, but CPython raises the parent class
        # ValueError when the offending character of a str is not ASCII (no code of the repository distinguishes the two)
        return expect.get("cls") == "binascii.Error" and native.get("cls") == "ValueError"
    return canon_equal(native.get("v"), expect.get("v"), bool(expect.get("inexact")))


def canon_equal(a, b, loose=False):
    """equality of canonical outcomes; a symbolic real (frac) equals a native float when they agree to 1e-9.
    loose: the symbolic value depends on uninterpreted library symbols whose model value is arbitrary: text, byte
    strings and numbers are then compared by kind only, the structure (classes, enum members, field names) exactly."""
    if loose:
        if isinstance(a, str) and isinstance(b, str):
            return True
        num = lambda x: (isinstance(x, (int, float)) and not isinstance(x, bool)) or (isinstance(x, dict) and x.get("t") in ("frac", "float"))
        if num(a) and num(b):
            return True
        if isinstance(a, dict) and isinstance(b, dict) and a.get("t") == b.get("t") == "bytes":
            return True
        if isinstance(a, dict) and isinstance(b, dict) and a.get("t") not in ("frac", "float"):
            return set(a) == set(b) and all(canon_equal(a[k], b[k], True) for k in a)
        if isinstance(a, list) and isinstance(b, list):
            return len(a) == len(b) and all(canon_equal(x, y, True) for x, y in zip(a, b))
    if isinstance(b, dict) and "any_of" in b:
        from native.common import exc_matches
        return isinstance(a, str) and any(exc_matches(a, c) for c in b["any_of"])
    if isinstance(a, dict) and isinstance(b, dict):
        ta, tb = a.get("t"), b.get("t")
        if {ta, tb} <= {"frac", "float"} and ta and tb:
            fa = a["n"] / a["d"] if ta == "frac" else a["v"]
            fb = b["n"] / b["d"] if tb == "frac" else b["v"]
            return abs(fa - fb) <= 1e-9 * max(1.0, abs(fa))
        if set(a) != set(b):
            return False
        return all(canon_equal(a[k], b[k]) for k in a)
    if isinstance(a, dict) and a.get("t") in ("frac", "float") and isinstance(b, int) and not isinstance(b, bool):
        return canon_equal(a, {"t": "float", "v": float(b)})
    if isinstance(b, dict) and b.get("t") in ("frac", "float") and isinstance(a, int) and not isinstance(a, bool):
        return canon_equal({"t": "float", "v": float(a)}, b)
    if isinstance(a, list) and isinstance(b, list):
        return len(a) == len(b) and all(canon_equal(x, y) for x, y in zip(a, b))
    return a == b


def replay_file(path):
    with open(path) as fh:
        payload = json.load(fh)
    case = payload.get("case")
    if not case:
        print("replay file carries no native case (no-failing-input-found); solver output:")
        print(json.dumps(payload.get("solver_output"), indent=1)[:4000])
        return 0
    res = engine.run_native([case])[0]
    print(json.dumps(res, indent=1)[:4000])
    return 1 if res.get("ok") is False else 0
