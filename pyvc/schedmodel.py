"""values for C10: a day set given by its mask (no path fork), and a set of analysed-class instances with deferred
de-duplication (builtin set with a user __eq__/__hash__: the first of equal elements is kept)"""
import z3

from .sym import isz, zi, zb, simp, PySet, Obj


def _uns(msg):
    from .interp import Unsupported
    return Unsupported(msg)


class MaskSet:
    """{d in Days : bit(d) & mask != 0}; bits from the specification's DAY_BIT table by member name"""
    def __init__(self, mask, cls, bits):
        self.mask, self.cls, self.bits = mask, cls, bits      # bits: member -> int

    def has(self, member):
        b = self.bits[member]
        if not isz(self.mask):
            return (self.mask // b) % 2 == 1
        return simp((self.mask / b) % 2 == 1)

    def concretise(self, m):
        from .engine import model_value
        mv = model_value(m, zi(self.mask)) if isz(self.mask) else self.mask
        return {"t": "set", "v": sorted(({"t": "enum", "cls": self.cls.__name__, "name": d.name} for d in self.cls
                                         if (mv // self.bits[d]) % 2 == 1), key=repr)}


class DeferredSet:
    """elements (Obj) in insertion order with the condition under which each one is kept"""
    def __init__(self):
        self.items = []      # (obj, kept Bool)


class AddLog:
    """a set whose previous content is arbitrary: only the additions made to it are recorded; every other use is out of subset
    (loop-step lemma of get_schedules, DESIGN.md 9.8)"""
    def __init__(self):
        self.adds = []


def sched_method(ip, o, name, args, kw, ctx):
    if isinstance(o, AddLog):
        if name == "add":
            o.adds.append(args[0])
            return None
        if name == "__getattr__" and args[0] == "add":
            from .interp import MethodRef
            return MethodRef(o, "add")
        raise _uns(f"{name} {args[0] if name == '__getattr__' else ''} on an add-only set")
    if isinstance(o, MaskSet):
        if name == "__bool__":
            return simp(z3.Or([zb(o.has(d)) for d in o.cls]))
        if name == "__len__":
            return simp(z3.Sum([z3.If(zb(o.has(d)), 1, 0) for d in o.cls]))
        if name == "__contains__":
            x = args[0]
            if isinstance(x, o.cls):
                return o.has(x)
            return False
        if name == "__eq__":
            other = args[0]
            if isinstance(other, MaskSet):
                return ip.conj([simp(zb(o.has(d)) == zb(other.has(d))) for d in o.cls])
            if isinstance(other, PySet):
                return ip.conj([simp(zb(o.has(d)) == z3.BoolVal(d in other.s)) for d in o.cls] +
                               [all(isinstance(x, o.cls) for x in other.s)])
            return False
        if name == "__iter__":
            raise _uns("iteration over a day set given by a symbolic mask")
        if name == "__type__":
            return set
        return NotImplemented
    if isinstance(o, DeferredSet):
        if name == "add":
            x = args[0]
            if not isinstance(x, Obj):
                raise _uns("deferred set: non-object element")
            conds = []
            for y, kept in o.items:
                e = ip.truth(ip.equals(y, x, ctx), ctx)
                conds.append(z3.And(zb(kept), zb(e)))
            keep = simp(z3.Not(z3.Or(conds))) if conds else True
            o.items.append((x, keep))
            ctx.used_models.add("builtin set with a user __eq__/__hash__: add keeps the first of equal elements "
                                "(__hash__ consistent with __eq__: checked by a separate obligation)")
            return None
        if name == "__len__":
            return simp(z3.Sum([z3.If(zb(k), 1, 0) for _, k in o.items])) if o.items else 0
        if name == "__bool__":
            return simp(z3.Or([zb(k) for _, k in o.items])) if o.items else False
        if name == "__type__":
            return set
        return NotImplemented
    return NotImplemented


def install(ip):
    ip.method_models.insert(0, sched_method)
