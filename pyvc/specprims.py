"""Symbolic implementations of the @primitive functions of contracts/spec.py.  Each shares its uninterpreted
symbol with the library model the code side uses, so that 'code computes the same thing as the spec' closes by
congruence; what links the symbol to reality (crc_hqx = bitwise CRC, ROUND1 = correctly rounded division ...) is a
stated assumption validated natively."""
import z3

from .sym import isz, zi, zb, simp, Seq, Elems, Gen, is_hexchar
from . import models, seqops


def p_crc16(ip, args, kw, ctx):
    return models.crc_hqx(ip, args, kw, ctx)


def p_is_hex(ip, args, kw, ctx):
    s = args[0]
    if isinstance(s, (str, bytes)):
        if isinstance(s, bytes):
            s = s.decode("latin-1")
        return all(c in "0123456789abcdefABCDEF" for c in s)
    s = seqops.concretize(Seq.of(s), ctx)
    conds = []
    for g in s.segs:
        if isinstance(g, Elems):
            for t in g.terms:
                c = is_hexchar(t)
                if c is True:
                    continue
                if c is False:
                    return False
                conds.append(c)
        else:
            if "hex" in g.flags:
                continue
            if g.hexpred is None:
                from .interp import Unsupported
                raise Unsupported("is_hex of an opaque segment without a hex predicate")
            conds.append(g.hexpred)
    if not conds:
        return True
    return simp(z3.And(conds))


def p_amps_of(ip, args, kw, ctx):
    w = args[0]
    if not isz(w):
        return models.ROUND1(z3.RealVal(w) / 220)
    ctx.used_models.add("round(x, 1): uninterpreted ROUND1(x) (validated on the whole 16-bit domain of watts)")
    return models.ROUND1(simp(z3.ToReal(w) / 220))


def p_tenths(ip, args, kw, ctx):
    from .sym import Rat
    return Rat(args[0], 10)


def p_utf8(ip, args, kw, ctx):
    s = args[0]
    if isinstance(s, str):
        return s.encode("utf-8")
    return seqops.encode_utf8(s, ctx)


def p_valid_hhmm(ip, args, kw, ctx):
    from .timemodels import TimeStr
    s = args[0]
    if isinstance(s, Seq) and s.tag and s.tag[0] == "HHMM":
        return True
    if isinstance(s, str):
        from contracts_native import valid_hhmm   # never reached in practice
        return valid_hhmm(s)
    if isinstance(s, TimeStr):
        return s.valid()
    from .interp import Unsupported
    raise Unsupported("valid_hhmm on this value")


def p_hh_of(ip, args, kw, ctx):
    from .timemodels import TimeStr
    s = args[0]
    if isinstance(s, TimeStr):
        return s.hv
    if isinstance(s, Seq) and s.tag and s.tag[0] == "HHMM":
        return s.tag[1]
    if isinstance(s, str):
        return int(s.split(":")[0])
    from .interp import Unsupported
    raise Unsupported("hh_of")


def p_mm_of(ip, args, kw, ctx):
    from .timemodels import TimeStr
    s = args[0]
    if isinstance(s, TimeStr):
        return s.mv
    if isinstance(s, Seq) and s.tag and s.tag[0] == "HHMM":
        return s.tag[2]
    if isinstance(s, str):
        return int(s.split(":")[1])
    from .interp import Unsupported
    raise Unsupported("mm_of")


def _spec_table(ip, name):
    from .interp import Ctx
    m = ip.P.modules["spec"]
    r = ip.P.resolve_static(m, name)
    return ip.static_value(r, Ctx())


def p_day_bit(ip, args, kw, ctx):
    import enum
    from .sym import SymEnum
    d = args[0]
    table = _spec_table(ip, "DAY_BIT").d
    if isinstance(d, enum.Enum):
        return table[d.name]
    if isinstance(d, SymEnum):
        vals = [table[m.name] for m in d.members]
        out = z3.IntVal(vals[-1])
        for k in reversed(range(len(vals) - 1)):
            out = z3.If(zi(d.idx) == k, z3.IntVal(vals[k]), out)
        return simp(out)
    from .interp import Unsupported
    raise Unsupported("day_bit of " + type(d).__name__)


def p_is_member(ip, args, kw, ctx):
    import enum
    from .sym import SymEnum
    x, cls = args
    return isinstance(x, cls) or (isinstance(x, SymEnum) and x.cls is cls)


def p_pairwise_distinct(ip, args, kw, ctx):
    from .sym import SymEnum, PySet, PyList
    from .models import SymEnumList
    from .interp import Unsupported
    items = args[0]
    if isinstance(items, (PySet, set, frozenset)):
        return True
    if isinstance(items, SymEnumList):
        if ctx.entails(zi(items.n) > len(list(items.cls))):
            return False       # pigeonhole: more elements than enum members
        raise Unsupported("pairwise_distinct on a symbolic-length sequence that may be short")
    xs = ip.iterate(items, ctx)
    conj = []
    for i in range(len(xs)):
        for j in range(i):
            e = ip.equals(xs[i], xs[j], ctx)
            conj.append((not e) if isinstance(e, bool) else z3.Not(e))
    return ip.conj(conj)


def p_pick(ip, args, kw, ctx):
    """Enum member by a table code -> name; symbolic code gives a SymEnum (no path fork)"""
    from .sym import SymEnum, PyDict
    from .interp import PyExc, Unsupported
    from .sym import ExcVal
    cls, table, code = args
    t = table.d if isinstance(table, PyDict) else table
    members = list(cls)
    if not isz(code):
        if code not in t:
            raise PyExc(ExcVal("KeyError", (code,)))
        return cls[t[code]]
    codes = sorted(t.keys())
    if not ctx.entails(z3.Or([code == c for c in codes])):
        if not ctx.branch(simp(z3.Or([code == c for c in codes]))):
            raise PyExc(ExcVal("KeyError", ("code",)))
    idx = z3.IntVal(members.index(cls[t[codes[-1]]]))
    for c in reversed(codes[:-1]):
        idx = z3.If(code == c, z3.IntVal(members.index(cls[t[c]])), idx)
    return SymEnum(cls, simp(idx), members)


def p_all_of(ip, args, kw, ctx):
    items = ip.iterate(args[0], ctx)
    return ip.conj([ip.truth(x, ctx) for x in items])


def p_implies(ip, args, kw, ctx):
    a, b = ip.truth(args[0], ctx), ip.truth(args[1], ctx)
    if isinstance(a, bool):
        return b if a else True
    return simp(z3.Implies(a, zb(b)))


def p_days_of_mask(ip, args, kw, ctx):
    from .schedmodel import MaskSet
    from .sym import PySet
    mask, cls = args
    table = _spec_table(ip, "DAY_BIT").d
    bits = {d: table[d.name] for d in cls}
    if not isz(mask):
        return PySet([d for d in cls if (mask // bits[d]) % 2 == 1])
    return MaskSet(mask, cls, bits)


def _le(n):
    def prim(ip, args, kw, ctx):
        from .sym import int_bytes
        v = args[0]
        if not isz(v):
            return bytes([(v >> (8 * k)) & 255 for k in range(n)])
        return Seq('bytes', [Elems(int_bytes(v, n))])
    return prim


def _lev(n):
    def prim(ip, args, kw, ctx):
        from .sym import le_value
        from .interp import PyExc
        from .sym import ExcVal
        b = args[0]
        if isinstance(b, bytes):
            if len(b) < n:
                raise PyExc(ExcVal("IndexError", ()))
            return int.from_bytes(b[:n], "little")
        sq = seqops.concretize(Seq.of(b), ctx)
        ts = []
        for i in range(n):
            ts.append(ip.seq_index(sq, i, ctx))
        return le_value(ts)
    return prim


def p_timestamp_of(ip, args, kw, ctx):
    now = args[0]
    r = models.b_round(ip, [now], {}, ctx)
    return _le(4)(ip, [r], {}, ctx)


def p_today_epoch(ip, args, kw, ctx):
    from .timemodels import local_date
    h, m = args
    Y, M, D = local_date(ctx)
    ctx.used_models.add("time.mktime: uninterpreted MKTIME(Y,M,D,h,m,s) (libc axiom L2: 0 <= MKTIME < 2^32 for 1970..2105); "
                        "returned as a float with integral value")
    t = models.MKTIME(zi(Y), zi(M), zi(D), zi(h), zi(m), z3.IntVal(0))
    ctx.fact(z3.And(t >= 0, t < 2 ** 32))
    return t


def p_local_hhmm_of(ip, args, kw, ctx):
    from .timemodels import hhmm_str
    t = args[0]
    ctx.used_models.add("time.localtime: uninterpreted LT_HOUR(t), LT_MIN(t) with 0<=h<24, 0<=m<60")
    h, m = models.LT_HOUR(zi(t)), models.LT_MIN(zi(t))
    ctx.fact(z3.And(h >= 0, h < 24, m >= 0, m < 60))
    return hhmm_str(h, m, ctx)


_DECODE_MEMO = {}


def p_decode_padded_utf8(ip, args, kw, ctx):
    """text whose zero-padded UTF-8 encoding is raw: the source text when raw is utf8(text) ++ zeros (axiom of the codec
    model), otherwise an opaque string that is a function of the bytes"""
    from .sym import array_gen, char_fact, fresh_name
    raw = args[0]
    if isinstance(raw, bytes):
        return raw.decode("utf-8").rstrip("\x00")
    raw = seqops.concretize(Seq.of(raw), ctx)
    segs = list(raw.segs)
    # strip literal zero padding
    while segs and isinstance(segs[-1], Elems) and all((not isz(t)) and t == 0 for t in segs[-1].terms):
        segs.pop()
    if not segs:
        return ""
    if len(segs) == 1 and isinstance(segs[0], Gen) and segs[0].origin is not None and segs[0].origin[0] == "utf8":
        ctx.used_models.add("utf-8 codec: decode(encode(s) ++ zeros).rstrip(NUL) == s for s without trailing NUL")
        return Seq('str', [segs[0].origin[1]])
    if not raw.fixed():
        from .interp import Unsupported
        raise Unsupported("decode_padded_utf8 of symbolic-length bytes")
    key = tuple(t.get_id() if isz(t) else ("c", t) for t in raw.terms())
    if key not in _DECODE_MEMO:
        L = z3.Int(fresh_name("namelen"))
        g = array_gen(fresh_name("name"), L, (), char_fact)
        _DECODE_MEMO[key] = (L, g, raw.terms())
    L, g, keep = _DECODE_MEMO[key]
    ctx.fact(z3.And(L >= 0, L <= len(key)))
    ctx.used_models.add("utf-8 codec: the decoded, NUL-stripped text is an (uninterpreted) function of the bytes")
    return Seq('str', [g])


def p_chr_digit(ip, args, kw, ctx):
    d = args[0]
    if not isz(d):
        return "0123456789"[d]
    if not ctx.entails(z3.And(d >= 0, d <= 9)):
        from .interp import PyExc
        from .sym import ExcVal
        if not ctx.branch(simp(z3.And(d >= 0, d <= 9))):
            raise PyExc(ExcVal("IndexError", ()))
    return Seq('str', [Elems([simp(d + 48)])])


def install(ip):
    ip.spec_prims.update({
        "crc16": p_crc16, "is_hex": p_is_hex, "amps_of": p_amps_of, "tenths": p_tenths, "utf8": p_utf8,
        "valid_hhmm": p_valid_hhmm, "hh_of": p_hh_of, "mm_of": p_mm_of,
        "le16": _le(2), "le32": _le(4), "le16v": _lev(2), "le32v": _lev(4), "pick": p_pick, "all_of": p_all_of, "days_of_mask": p_days_of_mask, "implies": p_implies, "chr_digit": p_chr_digit, "today_epoch": p_today_epoch, "local_hhmm_of": p_local_hhmm_of, "timestamp_of": p_timestamp_of, "decode_padded_utf8": p_decode_padded_utf8, "day_bit": p_day_bit, "is_member": p_is_member, "pairwise_distinct": p_pairwise_distinct,
    })
