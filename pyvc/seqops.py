"""str / bytes operations on symbolic sequences (exact Python semantics on the modelled subset)."""
import z3

from .sym import (isz, zi, zb, simp, as_const, as_bool_const, fresh_name, Elems, Gen, Seq, seq_eq, seq_concat,
                  hexchar, hexval, is_hexchar, nib_hi, nib_lo, byte_of_nibs, upper_char, byte_fact, char_fact,
                  is_symint, is_symreal, SymEnum, ExcVal, IntS, array_gen)


def _U():
    from .interp import Unsupported
    return Unsupported


def _raise(cls, *args):
    from .interp import PyExc
    raise PyExc(ExcVal(cls, args))


def concretize(s, ctx):
    """length concretisation: segments whose symbolic length is forced by the path condition become Elems"""
    if s.fixed():
        return s
    segs = []
    for g in s.segs:
        if isinstance(g, Gen) and isz(g.length):
            c = ctx.concrete_int(g.length)
            if c is not None:
                if c > 0:
                    ts = [g.at(i) for i in range(c)]
                    if g.elemfact is not None:
                        for t in ts:
                            if isz(t):
                                ctx.fact(g.elemfact(t))
                    segs.append(Elems(ts))
                continue
        segs.append(g)
    return Seq(s.kind, segs, s.tag)


def seg_bounds(s):
    """cumulative start offsets (ints or simplified terms) of each segment + total"""
    pos = 0
    out = []
    for g in s.segs:
        out.append(pos)
        L = g.length
        if isz(pos) or isz(L):
            pos = simp(zi(pos) + zi(L))
            c = as_const(pos)
            if c is not None:
                pos = c
        else:
            pos = pos + L
    return out, pos


def _sub(g, lo, n, ctx):
    """slice of one segment; a slice of an opaque segment that is all hex digits is all hex digits (one-way: the slice's own
    predicate is a fresh Bool implied by the parent's)"""
    r = g.sub(lo, n)
    if isinstance(g, Gen) and g.hexpred is not None and isinstance(r, Gen):
        from .sym import fresh_name
        hp = z3.Bool(fresh_name("hexslice"))
        ctx.fact(z3.Implies(g.hexpred, hp))
        r.hexpred = hp
    return r


def seq_slice(s, lo, hi, ctx):
    """s[lo:hi] with Python clamping; lo/hi: None, int or Int term"""
    s = concretize(s, ctx)
    total = s.length()
    if not isz(total) and not isz(lo) and not isz(hi) and all(isinstance(g, Elems) or g.origin is None for g in s.segs):
        # fully concrete geometry
        terms = s.terms()
        return Seq(s.kind, [Elems(terms[lo:hi])])
    # end-relative cuts  s[:len-k]  /  s[len-k:]  that fall inside a concrete tail
    if isz(total):
        def back_offset(b):
            if b is None or not isz(b):
                return None
            d = as_const(simp(zi(total) - b))
            return d if d is not None and d >= 0 else None
        kh = back_offset(hi) if hi is not None else 0
        kl = back_offset(lo) if lo is not None else None
        if (lo is None or (not isz(lo) and lo == 0)) and kh is not None and hi is not None:
            r = _drop_tail(s, kh)
            if r is not None:
                return r
        if hi is None and kl is not None:
            r = _take_tail(s, kl)
            if r is not None:
                return r
    # normalise bounds to [0, total] as terms / ints
    def norm(b, default):
        if b is None:
            return default
        if not isz(b) and not isz(total):
            if b < 0:
                b += total
            return min(max(b, 0), total)
        bt = zi(b)
        if not isz(b):
            if b >= 0:
                # min(b, total)
                if ctx.entails(zi(total) >= b):
                    return b
                if ctx.entails(zi(total) <= b):
                    return total
                return simp(z3.If(zi(total) < b, zi(total), z3.IntVal(b)))
            t = simp(zi(total) + b)
            if ctx.entails(t >= 0):
                return t
            if ctx.entails(t <= 0):
                return 0
            return simp(z3.If(t < 0, z3.IntVal(0), t))
        # symbolic bound
        t = z3.If(bt < 0, bt + zi(total), bt)
        return simp(z3.If(t < 0, 0, z3.If(t > zi(total), zi(total), t)))
    a = norm(lo, 0)
    b = norm(hi, total)
    ca = ctx.concrete_int(a) if isz(a) else a
    cb = ctx.concrete_int(b) if isz(b) else b
    starts, tot = seg_bounds(s)
    # try to cut along segments when both bounds fall at known places
    if ca is not None and cb is not None:
        # need every segment boundary before cb to be concrete
        out = []
        ok = True
        for g, st in zip(s.segs, starts):
            if isz(st):
                stc = ctx.concrete_int(st)
            else:
                stc = st
            if stc is None:
                ok = False
                break
            if stc >= cb:
                break
            L = g.length
            Lc = L if not isz(L) else ctx.concrete_int(L)
            if Lc is None:
                # symbolic-length segment: usable only if the cut ends inside its guaranteed part
                need = cb - stc
                if ctx.entails(zi(L) >= need):
                    a0 = max(ca - stc, 0)
                    if a0 < need:
                        ts = [g.at(i) for i in range(a0, need)]
                        if g.elemfact is not None:
                            for t in ts:
                                if isz(t):
                                    ctx.fact(g.elemfact(t))
                        out.append(Elems(ts))
                    break
                ok = False
                break
            a0 = max(ca - stc, 0)
            b0 = min(cb - stc, Lc)
            if a0 < b0:
                out.append(g if (a0 == 0 and b0 == Lc) else _sub(g, a0, b0 - a0, ctx))
        if ok:
            return Seq(s.kind, out)
    # suffix cut s[a:] with concrete a inside a concrete prefix
    if ca is not None and hi is None:
        out = []
        ok = True
        for idx, (g, st) in enumerate(zip(s.segs, starts)):
            stc = st if not isz(st) else ctx.concrete_int(st)
            if stc is None:
                ok = False
                break
            L = g.length
            Lc = L if not isz(L) else ctx.concrete_int(L)
            if Lc is None:
                if stc >= ca:
                    out += s.segs[idx:]
                    break
                # cut inside a symbolic-length segment
                d = ca - stc
                if ctx.entails(zi(L) >= d):
                    out.append(_sub(g, d, simp(zi(L) - d), ctx))
                    out += s.segs[idx + 1:]
                    break
                ok = False
                break
            if stc + Lc <= ca:
                continue
            a0 = max(ca - stc, 0)
            out.append(_sub(g, a0, Lc - a0, ctx))
        if ok:
            return Seq(s.kind, out)
    # general: a view
    n = simp(z3.If(zi(b) - zi(a) > 0, zi(b) - zi(a), 0))
    nc = ctx.concrete_int(n)
    base = s
    aa = ca if ca is not None else a
    if nc is not None:
        return Seq(s.kind, [Elems([base.at(aa + i if not isz(aa) else simp(zi(aa) + i)) for i in range(nc)])])
    key = ("view", id(base), str(aa))
    g = Gen(n, lambda i, base=base, aa=aa: base.at(simp(zi(aa) + zi(i))), key, 0, _common_flags(s))
    g.origin = ("view", base, aa)
    return Seq(s.kind, [g])


def _drop_tail(s, k):
    segs = list(s.segs)
    while k > 0:
        if not segs or not isinstance(segs[-1], Elems):
            return None
        g = segs.pop()
        if len(g.terms) > k:
            segs.append(Elems(g.terms[:len(g.terms) - k]))
            k = 0
        else:
            k -= len(g.terms)
    return Seq(s.kind, segs)


def _take_tail(s, k):
    out = []
    segs = list(s.segs)
    while k > 0:
        if not segs or not isinstance(segs[-1], Elems):
            return None
        g = segs.pop()
        if len(g.terms) >= k:
            out.insert(0, Elems(g.terms[len(g.terms) - k:]))
            k = 0
        else:
            out.insert(0, g)
            k -= len(g.terms)
    return Seq(s.kind, out)


def _common_flags(s):
    fl = None
    for g in s.segs:
        if isinstance(g, Gen):
            f = g.flags
        elif all((isz(t) and _known_ascii(t)) or (not isz(t) and chr(t) in "0123456789abcdef") for t in g.terms):
            f = frozenset({"hex", "ascii", "lower"})
        elif all(not isz(t) and t < 128 for t in g.terms):
            f = frozenset({"ascii"})
        else:
            f = frozenset()
        fl = f if fl is None else (fl & f)
    return fl or frozenset()


# ------------------------------------------------------------------------------------------------
def all_elems(s, pred, ctx):
    """conjunction of pred(e) over all elements; for Gen segments uses flags (returns None if unknown)"""
    conj = []
    for g in s.segs:
        if isinstance(g, Elems):
            for t in g.terms:
                conj.append(pred(t))
        else:
            return None
    return conj


def hexlify(s, ctx):
    s = concretize(Seq.of(s), ctx)
    out = []
    for g in s.segs:
        if isinstance(g, Elems):
            ts = []
            for b in g.terms:
                ts.append(hexchar(nib_hi(b)))
                ts.append(hexchar(nib_lo(b)))
            out.append(Elems(ts))
        else:
            if g.origin is not None and g.origin[0] == "unhexof" and "lower" in g.origin[1].flags:
                out.append(g.origin[1])
                continue
            src = g
            L = g.length
            hg = Gen(simp(zi(L) * 2) if isz(L) else L * 2,
                     lambda i, src=src: z3.If(i % 2 == 0, hexchar(src.at(i / 2) / 16), hexchar(src.at(i / 2) % 16)),
                     ("hexof", str(simp(zi(src.off)))) + tuple(src.key), 0, {"hex", "ascii", "lower"})
            hg.origin = ("hexof", src)
            out.append(hg)
    return Seq('bytes', out)


def unhexlify(s, ctx):
    """binascii.unhexlify on str or bytes: even length and all hex digits, else binascii.Error"""
    s = concretize(Seq.of(s), ctx)
    ctx.used_models.add("binascii.unhexlify/hexlify: nibble model")
    L = s.length()
    even = (L % 2 == 0) if not isz(L) else simp(L % 2 == 0)
    if not ctx.branch(even):
        _raise("binascii.Error", "Odd-length string")
    # hex-ness
    conds = []
    for g in s.segs:
        if isinstance(g, Elems):
            for t in g.terms:
                c = is_hexchar(t)
                if c is True:
                    continue
                conds.append(zb(c))
        else:
            if "hex" in g.flags:
                continue
            hp = g.hexpred
            if hp is None:
                raise _U()("unhexlify of an opaque segment without a hex predicate")
            conds.append(hp)
    if conds:
        if not ctx.branch(simp(z3.And(conds))):
            _raise("binascii.Error", "Non-hexadecimal digit found")
    if s.kind == 'str':
        # non-ASCII str raises ValueError; hex digits are ASCII, so nothing more to check here
        pass
    # pair up: needs segment boundaries at even offsets; otherwise flatten if fixed
    out = []
    starts, _ = seg_bounds(s)
    aligned = all((as_const(st) is not None and as_const(st) % 2 == 0) or
                  (isz(st) and ctx.entails(st % 2 == 0)) for st in starts)
    if not aligned:
        if s.fixed():
            s = Seq(s.kind, [Elems(s.terms())])
        else:
            raise _U()("unhexlify: symbolic segment at an odd offset")
    for g in s.segs:
        if isinstance(g, Elems):
            ts = g.terms
            out.append(Elems([byte_of_nibs(hexval(ts[i]), hexval(ts[i + 1])) for i in range(0, len(ts), 2)]))
        else:
            if g.origin is not None and g.origin[0] == "hexof":
                out.append(g.origin[1])
                continue
            src = g
            Lg = g.length
            ug = Gen(simp(zi(Lg) / 2) if isz(Lg) else Lg // 2,
                     lambda i, src=src: hexval(src.at(2 * i)) * 16 + hexval(src.at(2 * i + 1)),
                     ("unhexof", str(simp(zi(src.off)))) + tuple(src.key), 0, ())
            ug.origin = ("unhexof", src)
            out.append(ug)
    return Seq('bytes', out)


def decode_ascii_or_utf8(s, ctx, ascii_only=False):
    """bytes.decode() (UTF-8).  ASCII bytes decode to themselves; Utf8 segments decode to their source;
    anything else: either UnicodeDecodeError or an opaque string (over-approximation, exact enough for
    exception analysis; value-level obligations need the well-formedness precondition)"""
    s = concretize(Seq.of(s), ctx)
    assert s.kind == 'bytes'
    out = []
    pending = []   # Elems terms not known to be ASCII
    for g in s.segs:
        if isinstance(g, Elems):
            out.append(("elems", g))
        elif g.origin is not None and g.origin[0] == "utf8":
            out.append(("src", g.origin[1]))
        elif "ascii" in g.flags:
            out.append(("same", g))
        else:
            out.append(("opaque", g))
    segs = []
    for kind, g in out:
        if ascii_only and kind in ("src", "opaque"):
            raise _U()("ascii decode of bytes that are not given element by element")
        if kind == "src":
            segs.append(g)
        elif kind == "same":
            g2 = Gen(g.length, g.fn, g.key, g.off, g.flags, g.origin, g.elemfact)
            segs.append(g2)
        elif kind == "elems":
            nonascii = [t for t in g.terms if isz(t) and not _known_ascii(t)] + \
                       [t for t in g.terms if not isz(t) and t >= 128]
            if not nonascii:
                segs.append(g)
                continue
            allascii = simp(z3.And([zi(t) < 128 for t in nonascii]))
            ctx.used_models.add("utf-8 codec: ASCII bytes decode to themselves; other input either raises "
                                "UnicodeDecodeError or yields an opaque string")
            if ctx.branch(allascii):
                segs.append(g)
            else:
                k = 0 if ascii_only else ctx.fork(2)     # the ascii codec refuses every byte >= 0x80
                if k == 0:
                    _raise("UnicodeDecodeError")
                n = len(g.terms)
                L = ctx.fresh_int("declen", 1, n)
                name = fresh_name("dec")
                og = array_gen(name, L, (), char_fact)
                og.origin = ("decoded", Seq('bytes', [g]))
                segs.append(og)
        else:
            ctx.used_models.add("utf-8 codec: opaque bytes either raise UnicodeDecodeError or yield an opaque string")
            k = ctx.fork(2)
            if k == 0:
                _raise("UnicodeDecodeError")
            L = ctx.fresh_int("declen", 0)
            ctx.fact(L <= zi(g.length))
            og = array_gen(fresh_name("dec"), L, (), char_fact)
            og.origin = ("decoded", Seq('bytes', [g]))
            segs.append(og)
    return Seq('str', segs)


def _known_ascii(t):
    from .sym import _HEXCHAR, _tid
    return _tid(t) in _HEXCHAR


_UTF8_CACHE = {}


def encode_utf8(s, ctx):
    s = Seq.of(s)
    assert s.kind == 'str'
    segs = []
    for g in s.segs:
        if isinstance(g, Elems):
            bad = [t for t in g.terms if isz(t) and not _known_ascii(t)] + [t for t in g.terms if not isz(t) and t >= 128]
            if bad:
                if all(not isz(t) for t in g.terms):
                    segs.append(Elems(list("".join(chr(t) for t in g.terms).encode())))
                    continue
                allascii = simp(z3.And([zi(t) < 128 for t in bad]))
                if not ctx.entails(allascii):
                    raise _U()("encode of symbolic non-ASCII characters")
            segs.append(g)
        elif "ascii" in g.flags:
            segs.append(g)
        elif g.origin is not None and g.origin[0] == "decoded_utf8":
            segs.append(g.origin[1])
        else:
            # opaque text: UTF8(S) is an opaque byte string whose length is between len(S) and 4 len(S)
            key = (tuple(g.key), str(g.off), str(g.length))
            if key not in _UTF8_CACHE:
                ul = z3.Int(fresh_name("utf8len"))
                name = fresh_name("utf8")
                ug = array_gen(name, ul, (), byte_fact)
                ug.origin = ("utf8", g)
                _UTF8_CACHE[key] = (ul, ug)
            ul, ug = _UTF8_CACHE[key]
            ctx.fact(z3.And(ul >= zi(g.length), ul <= 4 * zi(g.length)))
            ctx.used_models.add("utf-8 codec: len(s) <= len(s.encode()) <= 4 len(s); decode(encode(s)) == s")
            segs.append(ug)
    return Seq('bytes', segs)


def rstrip_nul(s, chars, ctx):
    """str.rstrip(chars) for a single strip character"""
    if not isinstance(chars, str) or len(chars) != 1:
        raise _U()("rstrip with other than one literal character")
    c = ord(chars)
    s = concretize(Seq.of(s), ctx)
    segs = list(s.segs)
    while segs:
        g = segs[-1]
        if isinstance(g, Elems):
            ts = list(g.terms)
            stopped = False
            while ts:
                t = ts[-1]
                eq = (t == c) if not isz(t) else simp(t == c)
                if ctx.branch(eq):
                    ts.pop()
                else:
                    stopped = True
                    break
            segs.pop()
            if ts:
                segs.append(Elems(ts))
            if stopped:
                break
        else:
            if "zeros" in g.flags and c == 0:
                segs.pop()
                continue
            L = g.length
            if ctx.entails(simp(zi(L) == 0)):
                segs.pop()
                continue
            last = g.at(simp(zi(L) - 1))
            if ctx.entails(simp(z3.Implies(zi(L) > 0, last != c))):
                # the segment does not end in the strip character; if it may be empty we must look further left
                if ctx.entails(simp(zi(L) > 0)):
                    break
                if ctx.branch(simp(zi(L) > 0)):
                    break
                segs.pop()
                continue
            if g.origin is not None and g.origin[0] == "decoded":
                # stripping an opaque decoded text yields some (shorter or equal) opaque text; no exception is possible
                nl = ctx.fresh_int("striplen", 0)
                ctx.fact(nl <= zi(L))
                ng = array_gen(fresh_name("stripped"), nl, (), char_fact)
                ng.origin = ("decoded", None)
                segs[-1] = ng
                ctx.used_models.add("str.rstrip on an opaque decoded text: some opaque text, never raises")
                break
            raise _U()("rstrip into an opaque segment that may end with the strip character")
    return Seq(s.kind, segs)


def upper(s, ctx):
    s = Seq.of(s)
    segs = []
    for g in s.segs:
        if isinstance(g, Elems):
            ts = []
            for t in g.terms:
                if isz(t):
                    if not ctx.entails(t < 128):
                        raise _U()("upper of a possibly non-ASCII character")
                    ts.append(upper_char(t))
                else:
                    ts.append(ord(chr(t).upper()) if len(chr(t).upper()) == 1 else None)
                    if ts[-1] is None:
                        raise _U()("upper expanding")
            segs.append(Elems(ts))
        elif "ascii" in g.flags:
            src = g
            segs.append(Gen(g.length, lambda i, src=src: upper_char(src.fn(i)), ("upper",) + tuple(g.key), g.off,
                            g.flags - {"lower"}))
        else:
            raise _U()("upper of opaque text")
    return Seq(s.kind, segs)


def lower(s, ctx):
    s = Seq.of(s)
    segs = []
    low = lambda c: z3.If(z3.And(c >= 65, c <= 90), c + 32, c)
    for g in s.segs:
        if isinstance(g, Elems):
            ts = []
            for t in g.terms:
                if isz(t):
                    if not ctx.entails(t < 128):
                        raise _U()("lower of a possibly non-ASCII character")
                    ts.append(low(t))
                else:
                    if len(chr(t).lower()) != 1:
                        raise _U()("lower expanding")
                    ts.append(ord(chr(t).lower()))
            segs.append(Elems(ts))
        elif "ascii" in g.flags or "hex" in g.flags:
            src = g
            segs.append(Gen(g.length, lambda i, src=src: low(src.fn(i)), ("lower",) + tuple(g.key), g.off, g.flags | {"lower"}))
        else:
            raise _U()("lower of opaque text")
    return Seq(s.kind, segs)


def isdigit(s, ctx):
    s = concretize(Seq.of(s), ctx)
    if not s.fixed():
        raise _U()("isdigit on symbolic-length text")
    ts = s.terms()
    if not ts:
        return False
    conj = []
    for t in ts:
        if isz(t):
            # str.isdigit is true for many non-ASCII digits; the model requires ASCII here
            if not ctx.entails(t < 128):
                raise _U()("isdigit on a possibly non-ASCII character")
            conj.append(z3.And(t >= 48, t <= 57))
        else:
            conj.append(z3.BoolVal(chr(t).isdigit()))
    return simp(z3.And(conj))


def ljust(s, width, fill, ctx):
    s = Seq.of(s)
    if isinstance(fill, Seq):
        fill = fill.to_python()
    if not isinstance(fill, (str, bytes)) or len(fill) != 1:
        raise _U()("ljust fill")
    L = s.length()
    if isz(width):
        width = ctx.concrete_int(width)
        if width is None:
            raise _U()("ljust symbolic width")
    if isz(L):
        Lc = ctx.concrete_int(L)
        if Lc is None:
            raise _U()("ljust on symbolic-length text")
        s = concretize(s, ctx)
        L = Lc
    if L >= width:
        return s
    pad = Seq.of(fill * (width - L))
    return seq_concat(s, pad)


def seq_int(s, base, ctx):
    """int(text, base) for base 10 / 16 on digit strings.  Python also accepts sign, surrounding blanks, '_' and
    a 0x prefix; the model decides those only for concrete text (native) and otherwise demands plain digits or
    raises ValueError exactly when some character is not a digit of the base *and* none of the lenient forms can
    apply (characters restricted to digits/letters by provenance)."""
    s = concretize(Seq.of(s), ctx)
    ctx.used_models.add("int(text, base): value of the digit string; ValueError on empty or non-digit text")
    if not s.fixed():
        raise _U()("int() of symbolic-length text")
    ts = s.terms()
    if not ts:
        _raise("ValueError", "invalid literal for int()")
    if base == 16:
        vals = [hexval(t) for t in ts]
        bad = [v for v, t in zip(vals, ts) if isz(t) and not _known_ascii(t)]
        conds = [zb(is_hexchar(t)) for t in ts if isz(t) and not _known_ascii(t)]
        for t in ts:
            if not isz(t) and is_hexchar(t) is False:
                # a concrete non-hex char: lenient forms ('_', blanks, sign, 0x) need native evaluation
                if all(not isz(x) for x in ts):
                    try:
                        return int("".join(chr(x) for x in ts), 16)
                    except ValueError:
                        _raise("ValueError", "invalid literal for int()")
                raise _U()("int(x,16) on text mixing symbolic characters with non-hex literals")
        if conds:
            ok = simp(z3.And(conds))
            if not ctx.branch(ok):
                # some symbolic character is not a hex digit.  Lenient forms: '_' between digits, leading/trailing
                # whitespace, sign, 0x/0X prefix.  They need characters from  "_ +-xX\t\n\r\f\v"; if the path
                # excludes all of those the call raises, otherwise the unit is out of subset.
                lenient = [z3.Or(t == 95, t == 32, t == 43, t == 45, t == 120, t == 88, z3.And(t >= 9, t <= 13),
                                 z3.And(t >= 28, t <= 31), t == 0x85, t == 0xa0, t >= 0x1680)
                           for t in ts if isz(t) and not _known_ascii(t)]
                if ctx.feasible(simp(z3.Or(lenient))):
                    ctx.notes.append("int(x,16): lenient-literal forms not excluded; treated as ValueError")
                    ctx.inexact = True
                _raise("ValueError", "invalid literal for int()")
        # accumulate pairwise so that two digits of the same byte give that byte back (keeps terms linear in the bytes)
        from .sym import register_besum
        if len(vals) % 2 == 0 and len(vals) >= 2:
            bs = [byte_of_nibs(vals[i], vals[i + 1]) for i in range(0, len(vals), 2)]
            from .sym import le_value, _LEBYTE
            if all(isz(b) and b.get_id() in _LEBYTE for b in bs):
                lv = le_value(list(reversed(bs)))
                if isz(lv) and lv.get_id() == _LEBYTE[bs[0].get_id()][0].get_id():
                    return lv
            v = 0
            for b in bs:
                v = v * 256 + b if not (isz(v) or isz(b)) else zi(v) * 256 + zi(b)
            if isz(v):
                v = simp(v)
                register_besum(v, bs)
            return v
        v = 0
        for d in vals:
            v = v * 16 + d if not (isz(v) or isz(d)) else zi(v) * 16 + zi(d)
        return simp(v) if isz(v) else v
    if base == 10:
        conds = []
        vals = []
        for t in ts:
            if isz(t):
                conds.append(z3.And(t >= 48, t <= 57))
                vals.append(t - 48)
            else:
                if not chr(t).isdigit() or t >= 128:
                    if all(not isz(x) for x in ts):
                        try:
                            return int("".join(chr(x) for x in ts))
                        except ValueError:
                            _raise("ValueError", "invalid literal for int()")
                    raise _U()("int(x) on text mixing symbolic characters with non-digit literals")
                vals.append(t - 48)
        if conds:
            if not ctx.branch(simp(z3.And(conds))):
                lenient = [z3.Or(t == 95, t == 32, t == 43, t == 45, z3.And(t >= 9, t <= 13), t >= 128,
                                 z3.And(t >= 28, t <= 31)) for t in ts if isz(t)]
                if ctx.feasible(simp(z3.Or(lenient))):
                    ctx.notes.append("int(x): lenient-literal forms not excluded; treated as ValueError")
                    ctx.inexact = True
                _raise("ValueError", "invalid literal for int()")
        v = 0
        for d in vals:
            v = zi(v) * 10 + zi(d) if (isz(v) or isz(d)) else v * 10 + d
        return simp(v) if isz(v) else v
    raise _U()(f"int() base {base}")


def digits_classes(n, base, ctx, maxdigits=9):
    """fork on the number of digits of a non-negative symbolic int; returns digit count k (>=1)"""
    conds = []
    lo = 0
    for k in range(1, maxdigits + 1):
        hi = base ** k
        conds.append(simp(z3.And(n >= lo, n < hi)))
        lo = hi
    conds.append(simp(n >= lo))
    i = ctx.choose(conds)
    if i == maxdigits:
        raise _U()(f"number with more than {maxdigits} digits")
    return i + 1


def format_int(n, spec, ctx):
    """format(n, spec) for specs '', 'd', 'x', '02x', '0Nx', '02d', 'X' on ints"""
    import re
    if not isz(n):
        return format(n, spec)
    m = re.fullmatch(r"(0?)(\d*)([dxX]?)", spec)
    if not m:
        raise _U()(f"format spec {spec!r}")
    zero, width, typ = m.group(1), m.group(2), m.group(3) or "d"
    width = int(width) if width else 0
    base = 16 if typ in "xX" else 10
    fill = "0" if zero else " "
    neg = ctx.branch(simp(n < 0))
    a = simp(-n) if neg else n
    k = digits_classes(a, base, ctx)
    digs = []
    for j in reversed(range(k)):
        d = simp((a / (base ** j)) % base) if j else simp(a % base)
        if base == 16:
            ch = hexchar(d)
            if typ == "X":
                ch = upper_char(ch)
            digs.append(ch)
        else:
            digs.append(simp(d + 48))
    body = Seq('str', [Elems(digs)])
    out = body
    total = k + (1 if neg else 0)
    if neg:
        if fill == "0" and width > total:
            out = seq_concat(Seq.of("-" + "0" * (width - total)), body)
        else:
            out = seq_concat(Seq.of("-"), body)
            if width > total:
                out = seq_concat(Seq.of(" " * (width - total)), out)
    elif width > total:
        out = seq_concat(Seq.of(fill * (width - total)), body)
    ctx.used_models.add("int formatting ({}, {:x}, {:02x} ...): digit-count case split")
    return out


def format_value(ip, v, spec, ctx):
    import enum
    if isinstance(v, bool):
        return format(v, spec)
    if isinstance(v, int) or is_symint(v):
        r = format_int(v, spec, ctx)
        return r
    if isinstance(v, (str, Seq)):
        if spec not in ("", "s"):
            raise _U()("string format spec")
        return v
    if isinstance(v, float):
        return format(v, spec)
    if isinstance(v, enum.Enum) and spec == "":
        return str(v)
    if v is None and spec == "":
        return "None"
    for mm in ip.method_models:
        r = mm(ip, v, "__format__", [spec], {}, ctx)
        if r is not NotImplemented:
            return r
    if isinstance(v, ExcVal) and spec == "":
        return v.args[0] if len(v.args) == 1 and isinstance(v.args[0], (str, Seq)) else "exception"
    raise _U()(f"format of {type(v).__name__}")


def str_format(ip, fmt, args, kwargs, ctx):
    """str.format with positional / auto-numbered fields and simple nested width {0:0{1}x}"""
    import string
    if not isinstance(fmt, str):
        raise _U()("symbolic format string")
    out = ""
    auto = 0
    fm = string.Formatter()
    for lit, field, spec, conv in fm.parse(fmt):
        if lit:
            out = ip.add(out, lit, ctx)
        if field is None:
            continue
        if conv:
            raise _U()("format conversion")
        if field == "":
            v = args[auto]
            auto += 1
        elif field.isdigit():
            v = args[int(field)]
        else:
            if field not in kwargs:
                raise _U()("format field " + field)
            v = kwargs[field]
        spec = spec or ""
        if "{" in spec:
            # nested replacement fields in the spec
            inner = ""
            for l2, f2, s2, c2 in fm.parse(spec):
                inner += l2 or ""
                if f2 is not None:
                    if f2 == "":
                        a = args[auto]
                        auto += 1
                    else:
                        a = args[int(f2)]
                    a = ip.need_concrete_int(a, ctx) if not isinstance(a, str) else a
                    inner += str(a)
            spec = inner
        out = ip.add(out, format_value(ip, v, spec, ctx), ctx)
    return out


def seq_join(ip, sep, items, ctx):
    out = None
    for it in items:
        if not isinstance(it, (str, bytes, Seq)):
            _raise("TypeError", "join: expected str")
        out = it if out is None else ip.add(ip.add(out, sep, ctx), it, ctx)
    if out is None:
        return "" if not (isinstance(sep, bytes) or (isinstance(sep, Seq) and sep.kind == 'bytes')) else b""
    return out


def seq_contains(hay, needle, ctx):
    """needle in hay for fixed-length operands"""
    hay = concretize(Seq.of(hay), ctx)
    needle = concretize(Seq.of(needle), ctx)
    if hay.kind != needle.kind:
        _raise("TypeError", "in")
    if not (hay.fixed() and needle.fixed()):
        raise _U()("substring test on symbolic-length text")
    h, n = hay.terms(), needle.terms()
    if not n:
        return True
    alts = []
    for i in range(len(h) - len(n) + 1):
        f = seq_eq(Seq(hay.kind, [Elems(h[i:i + len(n)])]), needle)
        if f is True:
            return True
        if f is False:
            continue
        alts.append(f)
    if not alts:
        return False
    return simp(z3.Or(alts))


def dec_gen(n):
    """decimal text of 0 <= n <= 999 as ONE segment of symbolic length 1..3 (no path fork)"""
    L = z3.If(n < 10, 1, z3.If(n < 100, 2, 3))

    def fn(i, n=n, L=L):
        return z3.If(L == 1, n + 48,
                     z3.If(L == 2, z3.If(i == 0, n / 10 + 48, n % 10 + 48),
                           z3.If(i == 0, n / 100 + 48, z3.If(i == 1, (n / 10) % 10 + 48, n % 10 + 48))))
    g = Gen(simp(L), fn, ("dec", n.get_id()), 0, {"ascii"})
    g.origin = ("dec", n)
    return g


def str_of_int(n, ctx):
    """decimal text of an int; the segment(s) carry origin ('dec', n) so that models can recover the number"""
    if not isz(n):
        return str(n)
    if ctx.entails(z3.And(n >= 0, n <= 999)):
        return Seq('str', [dec_gen(n)])
    r = format_int(n, "", ctx)
    if isinstance(r, Seq) and r.fixed():
        ts = r.terms()
        g = Gen(len(ts), lambda i, ts=ts: Elems(ts).at(i), ("decf", n.get_id(), len(ts)), 0, {"ascii"})
        g.origin = ("dec", n)
        return Seq('str', [g])
    return r
