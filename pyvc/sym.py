"""Symbolic values of the pyvc executor.

Concrete Python values (int, bool, str, bytes, None, tuples, real Enum members ...) are kept as the
real Python objects and are operated on by CPython itself.  Only values that depend on a solver
variable use the classes below.

  int    -> z3 Int term              bool  -> z3 Bool term
  float  -> z3 Real term  (float arithmetic treated as exact real arithmetic: an ASSUMPTION that every
            property using it lists; see DESIGN.md 2.4)
  str / bytes -> Seq(kind, segs): a list of segments, each either
            Elems([t0, t1, ...])       concrete length, one Int term (code point / byte) per element
            Gen(length, fn, key, ...)  symbolic (or concrete) length, element i is fn(i)
"""
import itertools
import z3

IntS = z3.IntSort()
RealS = z3.RealSort()
BoolS = z3.BoolSort()


def isz(x):
    return isinstance(x, z3.ExprRef)


def is_symint(x):
    return isz(x) and z3.is_int(x)


def is_symreal(x):
    return isz(x) and z3.is_real(x)


def is_symbool(x):
    return isz(x) and z3.is_bool(x)


def zi(x):
    """to z3 Int"""
    if isz(x):
        return x
    if isinstance(x, bool):
        return z3.IntVal(1 if x else 0)
    return z3.IntVal(int(x))


def zb(x):
    if isz(x):
        return x
    return z3.BoolVal(bool(x))


def simp(t):
    return z3.simplify(t) if isz(t) else t


def as_const(t):
    """python int of a z3 numeral (after simplify), else None"""
    if isinstance(t, bool):
        return int(t)
    if isinstance(t, int):
        return t
    if isz(t):
        s = z3.simplify(t)
        if z3.is_int_value(s):
            return s.as_long()
    return None


def as_bool_const(t):
    if isinstance(t, bool):
        return t
    if isz(t):
        s = z3.simplify(t)
        if z3.is_true(s):
            return True
        if z3.is_false(s):
            return False
    return None


_fresh = itertools.count()


def fresh_name(prefix):
    return f"{prefix}!{next(_fresh)}"


def reset_fresh():
    global _fresh
    _fresh = itertools.count()


# --------------------------------------------------------------------------------------------
# peephole memo tables: keep formulas small by inverting constructors syntactically.  They are
# only *shortcuts for valid equalities* (hexval(hexchar(n)) = n for 0<=n<=15 etc.); the range
# side conditions are facts asserted when the underlying symbol was created.
_HEXCHAR = {}   # id(term hexchar) -> nibble term
_BYTE_NIBS = {}  # id(byte term) -> (hi, lo)
_NIB_OF = {}    # id(nibble term) -> (byte term, 'hi'|'lo')
_KEEP = []      # keep terms alive so ids stay unique


_BESUM = {}     # id(term) -> big-endian list of byte terms whose base-256 value the term is


def register_besum(v, bs):
    _BESUM[v.get_id()] = list(bs)
    _KEEP.append(v)


def besum_of(v):
    return _BESUM.get(v.get_id()) if isz(v) else None


_LEBYTE = {}    # id(byte term) -> (v term, k, n): the term is byte k (little-endian index) of the n-byte value v


def int_bytes(v, n):
    """little-endian list of the n bytes of 0 <= v < 256^n, registered for the integer-level equality peephole"""
    out = []
    for k in range(n):
        if not isz(v):
            out.append((v >> (8 * k)) & 255)
            continue
        t = simp((v / (256 ** k)) % 256) if k else simp(v % 256)
        if isz(t):
            _LEBYTE[t.get_id()] = (v, k, n)
            _KEEP.append(t)
        out.append(t)
    return out


def le_value(bs):
    """integer whose little-endian bytes are bs; when bs are exactly the registered bytes of an n-byte integer v
    (0 <= v < 256^n by the producer's range check) the result is v itself"""
    if bs and all(isz(b) and b.get_id() in _LEBYTE for b in bs):
        infos = [_LEBYTE[b.get_id()] for b in bs]
        v0, _, n0 = infos[0]
        if n0 == len(bs) and all(v.get_id() == v0.get_id() and k == i and n == n0 for i, (v, k, n) in enumerate(infos)):
            return v0
    tot = 0
    for i, b in enumerate(bs):
        term = b * (256 ** i) if not isz(b) else zi(b) * (256 ** i)
        tot = tot + term if not (isz(tot) or isz(term)) else zi(tot) + zi(term)
    return simp(tot) if isz(tot) else tot


def _byte_prov(t):
    """(v, k, n, part) for a char / byte term that is (a hex digit of) byte k of an n-byte integer v, else None"""
    if not isz(t):
        return None
    i = t.get_id()
    if i in _LEBYTE:
        v, k, n = _LEBYTE[i]
        return (v, k, n, 'b')
    if i in _HEXCHAR:
        nb = _HEXCHAR[i]
        j = _tid(nb)
        if j in _NIB_OF:
            b, part = _NIB_OF[j]
            if isz(b) and b.get_id() in _LEBYTE:
                v, k, n = _LEBYTE[b.get_id()]
                return (v, k, n, part)
    return None


def _int_runs(ta, tb):
    """positions where both element lists carry all bytes (or all hex digits) of an n-byte integer in the same order:
    returns (list of (va, vb), set of covered positions)"""
    pa = [_byte_prov(t) for t in ta]
    pb = [_byte_prov(t) for t in tb]
    eqs, covered = [], set()
    i = 0
    L = len(ta)
    while i < L:
        a, b = pa[i], pb[i]
        if a is None or b is None or a[2] != b[2] or a[3] != b[3] or a[1] != b[1]:
            i += 1
            continue
        n, part = a[2], a[3]
        step = 1 if part == 'b' else 2
        span = n * step
        if i + span > L:
            i += 1
            continue
        # order of byte indices along the run (little or big endian), identical on both sides
        ok = True
        ks = []
        for j in range(n):
            base = i + j * step
            x, y = pa[base], pb[base]
            if x is None or y is None or x[0].get_id() != a[0].get_id() or y[0].get_id() != b[0].get_id() \
                    or x[1] != y[1] or x[2] != n or y[2] != n:
                ok = False
                break
            if part != 'b':
                x2, y2 = pa[base + 1], pb[base + 1]
                if x2 is None or y2 is None or x[3] != 'hi' or x2[3] != 'lo' or y[3] != 'hi' or y2[3] != 'lo' \
                        or x2[0].get_id() != a[0].get_id() or y2[0].get_id() != b[0].get_id() or x2[1] != x[1] or y2[1] != y[1]:
                    ok = False
                    break
            ks.append(x[1])
        if ok and sorted(ks) == list(range(n)):
            eqs.append((a[0], b[0]))
            covered |= set(range(i, i + span))
            i += span
        else:
            i += 1
    return eqs, covered


def _tid(t):
    return t.get_id() if isz(t) else ("c", t)


def py_div(a, b):
    """Python floor division by a positive concrete constant (SMT-LIB div == // for b > 0)"""
    assert isinstance(b, int) and b > 0
    if not isz(a):
        return a // b
    return a / b


def py_mod(a, b):
    assert isinstance(b, int) and b > 0
    if not isz(a):
        return a % b
    return a % b


def nib_hi(b):
    if not isz(b):
        return b // 16
    k = _tid(b)
    if k in _BYTE_NIBS:
        return _BYTE_NIBS[k][0]
    t = b / 16
    _NIB_OF[_tid(t)] = (b, 'hi')
    _KEEP.append(t)
    return t


def nib_lo(b):
    if not isz(b):
        return b % 16
    k = _tid(b)
    if k in _BYTE_NIBS:
        return _BYTE_NIBS[k][1]
    t = b % 16
    _NIB_OF[_tid(t)] = (b, 'lo')
    _KEEP.append(t)
    return t


def byte_of_nibs(hi, lo):
    if not isz(hi) and not isz(lo):
        return hi * 16 + lo
    kh, kl = _tid(hi), _tid(lo)
    if kh in _NIB_OF and kl in _NIB_OF:
        bh, wh = _NIB_OF[kh]
        bl, wl = _NIB_OF[kl]
        if wh == 'hi' and wl == 'lo' and _tid(bh) == _tid(bl):
            return bh
    t = zi(hi) * 16 + zi(lo)
    _BYTE_NIBS[_tid(t)] = (hi, lo)
    _KEEP.append(t)
    return t


def hexchar(n):
    """code point of the lower-case hex digit of nibble n (0..15)"""
    if not isz(n):
        return ord("0123456789abcdef"[n])
    t = z3.If(n < 10, n + 48, n + 87)
    _HEXCHAR[_tid(t)] = n
    _KEEP.append(t)
    return t


def hexval(c):
    """value of a hex digit character code c (either case), or -1"""
    if not isz(c):
        ch = chr(c)
        return int(ch, 16) if ch in "0123456789abcdefABCDEF" else -1
    k = _tid(c)
    if k in _HEXCHAR:
        return _HEXCHAR[k]
    return z3.If(z3.And(c >= 48, c <= 57), c - 48,
                 z3.If(z3.And(c >= 97, c <= 102), c - 87,
                       z3.If(z3.And(c >= 65, c <= 70), c - 55, z3.IntVal(-1))))


def is_hexchar(c):
    if not isz(c):
        return chr(c) in "0123456789abcdefABCDEF"
    if _tid(c) in _HEXCHAR:
        return True
    return z3.Or(z3.And(c >= 48, c <= 57), z3.And(c >= 97, c <= 102), z3.And(c >= 65, c <= 70))


def upper_char(c):
    if not isz(c):
        return ord(chr(c).upper()) if c < 128 else None
    return z3.If(z3.And(c >= 97, c <= 122), c - 32, c)


# --------------------------------------------------------------------------------------------
class Elems:
    __slots__ = ("terms",)

    def __init__(self, terms):
        self.terms = list(terms)

    @property
    def length(self):
        return len(self.terms)

    def at(self, i):
        if not isz(i):
            return self.terms[i]
        out = None
        # If-chain, built from the end
        for k in reversed(range(len(self.terms))):
            out = zi(self.terms[k]) if out is None else z3.If(i == k, zi(self.terms[k]), out)
        return out if out is not None else z3.IntVal(0)

    def sub(self, lo, n):
        return Elems(self.terms[lo:lo + n])

    def concrete(self):
        return all(not isz(t) for t in self.terms)

    def __repr__(self):
        return f"Elems({len(self.terms)})"


class Gen:
    """segment of (possibly) symbolic length; element i (0 <= i < length) is fn(i).
    key identifies the generator structurally: two Gens with equal keys, offsets and lengths are equal.
    flags: facts that hold for every element / the segment and that slices inherit
           ('hex': every element is a hex digit char; 'ascii': every element < 128)
    origin: for provenance-based library models, e.g. ('utf8', strseg), ('hexof', bytesseg) ..."""
    __slots__ = ("length", "fn", "key", "off", "flags", "origin", "elemfact", "hexpred")

    def __init__(self, length, fn, key, off=0, flags=(), origin=None, elemfact=None, hexpred=None):
        self.length = length
        self.fn = fn
        self.key = key
        self.off = off
        self.flags = frozenset(flags)
        self.origin = origin
        self.elemfact = elemfact   # callable(term)->Bool fact about each element (range)
        self.hexpred = hexpred     # Bool term "every element of this (whole) segment is a hex digit"; not inherited by slices

    def at(self, i):
        return self.fn(zi(self.off) + zi(i) if (isz(self.off) or isz(i)) else self.off + i)

    def sub(self, lo, n):
        off = self.off + lo if not (isz(self.off) or isz(lo)) else simp(zi(self.off) + zi(lo))
        return Gen(n, self.fn, self.key, off, self.flags, None, self.elemfact)

    def __repr__(self):
        return f"Gen({self.key},{self.off},{self.length})"


def array_gen(name, length, flags=(), elemfact=None):
    arr = z3.Array(name, IntS, IntS)
    return Gen(length, lambda i: z3.Select(arr, i), ("arr", name), 0, flags, None, elemfact)


def byte_fact(t):
    return z3.And(t >= 0, t <= 255)


def char_fact(t):
    return z3.And(t >= 0, t <= 0x10FFFF)


class Seq:
    """symbolic str or bytes"""
    __slots__ = ("kind", "segs", "tag")

    def __init__(self, kind, segs, tag=None):
        self.kind = kind
        out = []
        for g in segs:
            if isinstance(g, Elems):
                if not g.terms:
                    continue
                if out and isinstance(out[-1], Elems):
                    out[-1] = Elems(out[-1].terms + g.terms)
                    continue
            else:
                c = as_const(g.length)
                if c is not None and c <= 0:
                    continue
            out.append(g)
        self.segs = out
        self.tag = tag      # provenance for library models, e.g. ('HHMM', h, m), ('DATE',), ('hexof', bytes Seq)

    # ---- construction
    @staticmethod
    def of(value):
        if isinstance(value, Seq):
            return value
        if isinstance(value, str):
            return Seq('str', [Elems([ord(c) for c in value])])
        if isinstance(value, (bytes, bytearray)):
            return Seq('bytes', [Elems(list(value))])
        raise TypeError(value)

    def is_concrete(self):
        return all(isinstance(g, Elems) and g.concrete() for g in self.segs)

    def to_python(self):
        if not self.is_concrete():
            return self
        items = [t for g in self.segs for t in g.terms]
        if self.kind == 'str':
            return "".join(chr(c) for c in items)
        return bytes(items)

    def fixed(self):
        """True if every segment has a concrete length"""
        return all(isinstance(g, Elems) or not isz(g.length) for g in self.segs)

    def length(self):
        tot = 0
        sym = None
        for g in self.segs:
            L = g.length
            if isz(L):
                sym = L if sym is None else sym + L
            else:
                tot += L
        if sym is None:
            return tot
        return simp(sym + tot) if tot else simp(sym)

    def terms(self):
        """flat element list (only when fixed())"""
        out = []
        for g in self.segs:
            if isinstance(g, Elems):
                out += g.terms
            else:
                out += [g.at(i) for i in range(g.length)]
        return out

    def at(self, i):
        """element at index i (Int term or int), 0 <= i < len assumed"""
        if not isz(i) and self.segs:
            pos = 0
            for g in self.segs:
                L = g.length
                if isz(L):
                    break
                if i < pos + L:
                    return g.at(i - pos)
                pos += L
            else:
                raise IndexError(i)
        # general If-chain
        i = zi(i)
        pos = 0
        branches = []
        for g in self.segs:
            L = g.length
            rel = simp(i - pos) if isz(pos) or isz(i) else i - pos
            branches.append((simp(i < zi(pos) + zi(L)), g.at(rel)))
            pos = simp(zi(pos) + zi(L)) if (isz(pos) or isz(L)) else pos + L
        out = None
        for cond, val in reversed(branches):
            out = zi(val) if out is None else z3.If(cond, zi(val), out)
        return out if out is not None else z3.IntVal(0)

    def __repr__(self):
        return f"Seq<{self.kind}>{self.segs}"


def seq_concat(a, b):
    assert a.kind == b.kind, (a.kind, b.kind)
    return Seq(a.kind, a.segs + b.segs)


def seq_eq(a, b):
    """z3 Bool (or python bool): a == b, exact.  For symbolic-length operands the formula contains a
    universally quantified index; callers that use it as an *assumption* must treat solver answers
    accordingly (the executor marks such paths)."""
    a = Seq.of(a)
    b = Seq.of(b)
    if a.kind != b.kind:
        return False
    if a.fixed() and b.fixed():
        ta, tb = a.terms(), b.terms()
        if len(ta) != len(tb):
            return False
        conj = []
        runs, covered = _int_runs(ta, tb)
        for va, vb in runs:
            if va.get_id() != vb.get_id():
                conj.append(va == vb)
        for idx, (x, y) in enumerate(zip(ta, tb)):
            if idx in covered:
                continue
            if not isz(x) and not isz(y):
                if x != y:
                    return False
                continue
            if isz(x) and isz(y) and x.get_id() == y.get_id():
                continue
            conj.append(zi(x) == zi(y))
        if not conj:
            return True
        return z3.And(conj) if len(conj) > 1 else conj[0]
    # strip structurally identical leading / trailing segments
    A, B = list(a.segs), list(b.segs)
    conj = []
    changed = True
    while changed and A and B:
        changed = False
        x, y = A[0], B[0]
        if isinstance(x, Gen) and isinstance(y, Gen) and x.key == y.key and \
                as_const(simp(zi(x.off) - zi(y.off))) == 0 and as_const(simp(zi(x.length) - zi(y.length))) == 0:
            A.pop(0)
            B.pop(0)
            changed = True
            continue
        if isinstance(x, Gen) and isinstance(y, Gen) and x.origin is not None and y.origin is not None \
                and x.origin[0] == "dec" and y.origin[0] == "dec" and _nondigit_follows(A) and _nondigit_follows(B):
            # decimal texts followed by a non-digit (or the end): equal iff the numbers are equal (unique parse)
            conj.append(x.origin[1] == y.origin[1])
            A.pop(0)
            B.pop(0)
            changed = True
            continue
        if isinstance(x, Elems) and isinstance(y, Elems):
            n = min(len(x.terms), len(y.terms))
            f = seq_eq(Seq(a.kind, [Elems(x.terms[:n])]), Seq(a.kind, [Elems(y.terms[:n])]))
            if f is False:
                return False
            if f is not True:
                conj.append(f)
            A[0] = Elems(x.terms[n:])
            B[0] = Elems(y.terms[n:])
            if not A[0].terms:
                A.pop(0)
            if not B[0].terms:
                B.pop(0)
            changed = True
    a2, b2 = Seq(a.kind, A), Seq(b.kind, B)
    if not a2.segs and not b2.segs:
        return z3.And(conj) if conj else True
    la, lb = a2.length(), b2.length()
    k = z3.Int(fresh_name("k"))
    body = z3.Implies(z3.And(k >= 0, k < zi(la)), a2.at(k) == b2.at(k))
    conj += [zi(la) == zi(lb), z3.ForAll([k], body)]
    return z3.And(conj)


def _nondigit_follows(segs):
    if len(segs) == 1:
        return True
    nxt = segs[1]
    if isinstance(nxt, Elems) and nxt.terms and not isz(nxt.terms[0]):
        return not (48 <= nxt.terms[0] <= 57)
    return False


class Rat:
    """exact rational n/d with d a positive python int: the value of int / constant.  Used for the float expressions
    of the repository (t/60, v/10, w/220.0): float arithmetic is modelled as exact rational arithmetic (assumption)."""
    __slots__ = ("n", "d")

    def __init__(self, n, d):
        assert isinstance(d, int) and d > 0
        self.n, self.d = n, d

    def real(self):
        return z3.ToReal(zi(self.n)) / self.d

    def __repr__(self):
        return f"Rat({self.n}/{self.d})"


class SymEnum:
    """a member of a real Enum class chosen by a solver variable idx in [0, len(members))"""
    def __init__(self, cls, idx, members=None):
        self.cls = cls
        self.idx = idx
        self.members = list(members if members is not None else cls)

    def __repr__(self):
        return f"SymEnum({self.cls.__name__},{self.idx})"


class Obj:
    """instance of a class of the analysed code"""
    _ids = itertools.count()

    def __init__(self, cls, attrs=None):
        self.cls = cls
        self.attrs = dict(attrs or {})
        self.oid = next(Obj._ids)
        self.preexisting = False

    def __repr__(self):
        return f"<{self.cls.name}#{self.oid}>"


class PyList:
    def __init__(self, items):
        self.items = list(items)

    def __repr__(self):
        return f"PyList({self.items})"


class LazyList(PyList):
    """a generator expression: elements are produced on demand by a Python generator over the interpreter (one-shot, like the
    real object); any consumer that reads .items drains it, next()/any()/all() step through it"""
    def __init__(self, it):
        self._it = it
        self._buf = []
        self._pos = 0          # elements already handed out by step()
        self._done = False

    def step(self):
        if self._pos < len(self._buf):
            self._pos += 1
            return True, self._buf[self._pos - 1]
        if self._done:
            return False, None
        try:
            x = next(self._it)
        except StopIteration:
            self._done = True
            return False, None
        self._buf.append(x)
        self._pos += 1
        return True, x

    @property
    def items(self):
        # what a full iteration still yields (a generator is consumed once)
        while not self._done:
            try:
                self._buf.append(next(self._it))
            except StopIteration:
                self._done = True
        rest = self._buf[self._pos:]
        self._pos = len(self._buf)
        return rest

    @items.setter
    def items(self, v):
        raise TypeError("generator expressions are read-only")

    def __repr__(self):
        return "LazyList(...)"


class PyDict:
    """dict with concrete hashable keys (python str/int/enum members) and arbitrary values; insertion ordered"""
    def __init__(self, d=None):
        self.d = dict(d or {})

    def __repr__(self):
        return f"PyDict({self.d})"


class PySet:
    """set of concrete hashables"""
    def __init__(self, items=()):
        self.s = set(items)

    def __repr__(self):
        return f"PySet({self.s})"


class ExcVal:
    """an exception instance: class name (+ bases known to the hierarchy table), args"""
    def __init__(self, cls, args=(), cause=None):
        self.cls = cls
        self.args = tuple(args)
        self.cause = cause

    def __repr__(self):
        return f"{self.cls}{self.args}"


EXC_BASES = {
    "BaseException": None, "Exception": "BaseException", "ArithmeticError": "Exception",
    "ZeroDivisionError": "ArithmeticError", "OverflowError": "ArithmeticError",
    "LookupError": "Exception", "KeyError": "LookupError", "IndexError": "LookupError",
    "ValueError": "Exception", "UnicodeError": "ValueError", "UnicodeDecodeError": "UnicodeError",
    "UnicodeEncodeError": "UnicodeError", "binascii.Error": "ValueError", "TypeError": "Exception",
    "AttributeError": "Exception", "RuntimeError": "Exception", "NotImplementedError": "RuntimeError",
    "OSError": "Exception", "struct.error": "Exception", "AssertionError": "Exception",
    "StopIteration": "Exception", "CallbackError": "Exception", "json.JSONDecodeError": "ValueError",
    "ConnectionError": "OSError", "ConnectionResetError": "ConnectionError", "BrokenPipeError": "ConnectionError", "ConnectionAbortedError": "ConnectionError", "ConnectionRefusedError": "ConnectionError",
    "TimeoutError": "OSError", "asyncio.TimeoutError": "TimeoutError", "KeyboardInterrupt": "BaseException",
    "asyncio.CancelledError": "BaseException",
}


def exc_isinstance(cls, target):
    c = cls
    while c is not None:
        if c == target:
            return True
        if c not in EXC_BASES and c != "BaseException":
            # never guess: an exception class outside the modelled hierarchy must not silently fail to match a handler
            from .interp import Unsupported
            raise Unsupported(f"exception class {c} is not in the modelled class hierarchy")
        c = EXC_BASES.get(c)
    return False
