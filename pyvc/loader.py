"""Loads the real source of /repo/src/aioswitcher on every run: ast.parse of every module, class and
function tables, and the *executed* namespaces of the three constant-only modules (packets, device/__init__,
schedule/__init__) for their literals and real Enum members (DESIGN.md 2.12)."""
import ast
import enum
import os
import sys
import types

SRC = os.environ.get("PYVC_SRC", "/repo/src")
PKG = "aioswitcher"

MODULE_FILES = {
    "aioswitcher": "__init__.py",
    "aioswitcher.api": "api/__init__.py",
    "aioswitcher.api.packets": "api/packets.py",
    "aioswitcher.api.messages": "api/messages.py",
    "aioswitcher.api.remotes": "api/remotes.py",
    "aioswitcher.schedule": "schedule/__init__.py",
    "aioswitcher.schedule.parser": "schedule/parser.py",
    "aioswitcher.schedule.tools": "schedule/tools.py",
    "aioswitcher.bridge": "bridge.py",
    "aioswitcher.device": "device/__init__.py",
    "aioswitcher.device.tools": "device/tools.py",
}
# modules executed in isolation for constants / Enum members (stdlib imports only)
EXEC_MODULES = ["aioswitcher.api.packets", "aioswitcher.device", "aioswitcher.schedule"]


class FuncInfo:
    def __init__(self, node, module, cls=None):
        self.node = node
        self.module = module
        self.cls = cls
        self.name = node.name
        self.qualname = (module.name + "." + (cls.name + "." if cls else "") + node.name)
        self.is_async = isinstance(node, ast.AsyncFunctionDef)
        self.decorators = [ast.unparse(d) for d in node.decorator_list]
        self.is_property = "property" in self.decorators

    def __repr__(self):
        return f"<func {self.qualname}>"


class ClassInfo:
    def __init__(self, node, module):
        self.node = node
        self.module = module
        self.name = node.name
        self.qualname = module.name + "." + node.name
        self.decorators = [ast.unparse(d) for d in node.decorator_list]
        self.is_dataclass = any(d.startswith("dataclass") for d in self.decorators)
        self.frozen = any("frozen=True" in d for d in self.decorators)
        self.methods = {}
        self.fields = []     # (name, annotation_src, default_node or None, init: bool, initvar: bool)
        self.class_attrs = {}  # plain class-level assignments (AST)
        self.base_exprs = node.bases
        self.bases = []      # resolved ClassInfo (analysed classes only)
        for st in node.body:
            if isinstance(st, (ast.FunctionDef, ast.AsyncFunctionDef)):
                self.methods[st.name] = FuncInfo(st, module, self)
            elif isinstance(st, ast.AnnAssign) and isinstance(st.target, ast.Name):
                ann = ast.unparse(st.annotation)
                init = True
                default = st.value
                if isinstance(st.value, ast.Call) and ast.unparse(st.value.func) == "field":
                    default = None
                    for kw in st.value.keywords:
                        if kw.arg == "init" and isinstance(kw.value, ast.Constant):
                            init = bool(kw.value.value)
                        if kw.arg == "default":
                            default = kw.value
                self.fields.append((st.target.id, ann, default, init, ann.startswith("InitVar")))
            elif isinstance(st, ast.Assign) and len(st.targets) == 1 and isinstance(st.targets[0], ast.Name):
                self.class_attrs[st.targets[0].id] = st.value
        self._mro = None

    def mro(self):
        if self._mro is None:
            seqs = [b.mro() for b in self.bases] + [list(self.bases)]
            res = [self]
            seqs = [list(s) for s in seqs if s]
            while seqs:
                for s in seqs:
                    cand = s[0]
                    if not any(cand in t[1:] for t in seqs):
                        break
                else:
                    raise TypeError("inconsistent MRO for " + self.name)
                res.append(cand)
                seqs = [[c for c in s if c is not cand] for s in seqs]
                seqs = [s for s in seqs if s]
            self._mro = res
        return self._mro

    def find_method(self, name, after=None):
        mro = self.mro()
        if after is not None:
            mro = mro[mro.index(after) + 1:]
        for c in mro:
            if name in c.methods:
                return c.methods[name]
        return None

    def dataclass_fields(self):
        """dataclass field order: reverse MRO, base fields first; later definitions override in place"""
        order = {}
        for c in reversed(self.mro()):
            if not c.is_dataclass:
                continue
            for f in c.fields:
                order[f[0]] = f
        return list(order.values())

    def is_subclass_of(self, other):
        return other in self.mro()

    def __repr__(self):
        return f"<class {self.qualname}>"


class ModuleInfo:
    def __init__(self, name, path, src):
        self.name = name
        self.path = path
        self.src = src
        self.tree = ast.parse(src, filename=path)
        self.funcs = {}
        self.classes = {}
        self.assigns = {}     # module-level Name = expr (AST), last one wins
        self.imports = {}     # local name -> ('module', dotted) | ('from', dotted, name)
        self.has_global_stmt = False
        for st in self.tree.body:
            if isinstance(st, (ast.FunctionDef, ast.AsyncFunctionDef)):
                self.funcs[st.name] = FuncInfo(st, self)
            elif isinstance(st, ast.ClassDef):
                self.classes[st.name] = ClassInfo(st, self)
            elif isinstance(st, ast.Assign):
                for t in st.targets:
                    if isinstance(t, ast.Name):
                        self.assigns[t.id] = st.value
            elif isinstance(st, ast.AnnAssign) and isinstance(st.target, ast.Name) and st.value is not None:
                self.assigns[st.target.id] = st.value
            elif isinstance(st, ast.Import):
                for a in st.names:
                    self.imports[a.asname or a.name.split(".")[0]] = ("module", a.name if a.asname else a.name.split(".")[0])
            elif isinstance(st, ast.ImportFrom):
                base = st.module or ""
                if st.level:
                    is_pkg = path.endswith("__init__.py")
                    package = name if is_pkg else name.rsplit(".", 1)[0]
                    parts = package.split(".")
                    if st.level > 1:
                        parts = parts[:len(parts) - (st.level - 1)]
                    base = ".".join(parts + ([st.module] if st.module else []))
                for a in st.names:
                    self.imports[a.asname or a.name] = ("from", base, a.name)
        for n in ast.walk(self.tree):
            if isinstance(n, (ast.Global, ast.Nonlocal)):
                self.has_global_stmt = True

    def __repr__(self):
        return f"<module {self.name}>"


class Program:
    def __init__(self, src_root=None):
        self.src_root = src_root or SRC
        self.modules = {}
        for name, rel in MODULE_FILES.items():
            path = os.path.join(self.src_root, PKG, rel)
            if not os.path.exists(path):
                continue
            with open(path) as fh:
                self.modules[name] = ModuleInfo(name, path, fh.read())
        self.real = {}
        self._exec_constant_modules()
        # resolve class bases
        for m in self.modules.values():
            for c in m.classes.values():
                for b in c.base_exprs:
                    if isinstance(b, ast.Name):
                        r = self.resolve_static(m, b.id)
                        if isinstance(r, ClassInfo):
                            c.bases.append(r)

    def _exec_constant_modules(self):
        """executes packets.py, device/__init__.py, schedule/__init__.py in an isolated package namespace"""
        saved = {k: v for k, v in sys.modules.items() if k == "pyvc_real" or k.startswith("pyvc_real.")}
        pkgname = "pyvc_real"
        for k in list(saved):
            del sys.modules[k]
        root = types.ModuleType(pkgname)
        root.__path__ = []
        sys.modules[pkgname] = root
        for name in EXEC_MODULES:
            mi = self.modules.get(name)
            if mi is None:
                continue
            alias = pkgname + name[len(PKG):]
            mod = types.ModuleType(alias)
            mod.__file__ = mi.path
            if mi.path.endswith("__init__.py"):
                mod.__path__ = []
            mod.__package__ = alias if mi.path.endswith("__init__.py") else alias.rsplit(".", 1)[0]
            sys.modules[alias] = mod
            # parent packages (plain, empty)
            parts = alias.split(".")
            for i in range(1, len(parts)):
                p = ".".join(parts[:i])
                if p not in sys.modules:
                    pm = types.ModuleType(p)
                    pm.__path__ = []
                    sys.modules[p] = pm
            exec(compile(mi.src, mi.path, "exec"), mod.__dict__)
            self.real[name] = mod

    def add_module(self, name, path):
        """sidecar modules (spec vocabulary, contracts): parsed like repository modules, never executed here"""
        with open(path) as fh:
            m = ModuleInfo(name, path, fh.read())
        self.modules[name] = m
        for c in m.classes.values():
            for b in c.base_exprs:
                if isinstance(b, ast.Name):
                    r = self.resolve_static(m, b.id)
                    if isinstance(r, ClassInfo):
                        c.bases.append(r)
        return m

    def loaded_attrs(self):
        """names of attributes that some code of the package READS (ast.Attribute in Load context, getattr/hasattr strings):
        an assignment to an attribute that nothing ever reads cannot influence any behaviour"""
        if getattr(self, "_loaded_attrs", None) is None:
            acc = set()
            for name, m in self.modules.items():
                if not name.startswith(PKG):
                    continue
                for n in ast.walk(m.tree):
                    if isinstance(n, ast.Attribute) and isinstance(n.ctx, ast.Load):
                        acc.add(n.attr)
                    elif isinstance(n, ast.Call) and isinstance(n.func, ast.Name) and n.func.id in ("getattr", "hasattr", "vars") :
                        for a in n.args[1:2]:
                            if isinstance(a, ast.Constant) and isinstance(a.value, str):
                                acc.add(a.value)
                        if n.func.id == "vars":
                            acc.add("*")
                    elif isinstance(n, ast.Attribute) and n.attr == "__dict__":
                        acc.add("*")
            self._loaded_attrs = acc
        return self._loaded_attrs

    def module_of(self, dotted):
        return self.modules.get(dotted)

    def real_value(self, modname, attr):
        mod = self.real.get(modname)
        if mod is not None and hasattr(mod, attr):
            return True, getattr(mod, attr)
        return False, None

    def resolve_static(self, module, name, _depth=0):
        """what does `name` denote at module level of `module`?  Returns a FuncInfo / ClassInfo /
        ModuleInfo / ('real', obj) / ('assign', ModuleInfo, node) / ('ext', dotted) / None."""
        if _depth > 10:
            return None
        if name in module.classes:
            ok, obj = self.real_value(module.name, name)
            if ok and isinstance(obj, type) and issubclass(obj, enum.Enum):
                return ("real", obj)
            return module.classes[name]
        if name in module.funcs:
            return module.funcs[name]
        if name in module.assigns:
            ok, obj = self.real_value(module.name, name)
            if ok:
                return ("real", obj)
            return ("assign", module, module.assigns[name])
        if name in module.imports:
            imp = module.imports[name]
            if imp[0] == "module":
                if imp[1] in self.modules:
                    return self.modules[imp[1]]
                return ("ext", imp[1])
            _, base, attr = imp
            if base in self.modules:
                sub = base + "." + attr
                if sub in self.modules:
                    return self.modules[sub]
                return self.resolve_static(self.modules[base], attr, _depth + 1)
            return ("ext", base + "." + attr)
        return None

    def func(self, qualname):
        """'aioswitcher.device.tools.sign_packet_with_crc_key' or 'aioswitcher.api.SwitcherType1Api.get_state'"""
        parts = qualname.split(".")
        for cut in range(len(parts) - 1, 0, -1):
            mname = ".".join(parts[:cut])
            if mname in self.modules:
                m = self.modules[mname]
                rest = parts[cut:]
                if len(rest) == 1 and rest[0] in m.funcs:
                    return m.funcs[rest[0]]
                if len(rest) == 2 and rest[0] in m.classes:
                    return m.classes[rest[0]].find_method(rest[1])
        return None

    def cls(self, qualname):
        mname, cname = qualname.rsplit(".", 1)
        m = self.modules.get(mname)
        return m.classes.get(cname) if m else None
