"""Obligation generation / discharge / counterexample concretisation / parallel driver (DESIGN.md 2.6-2.9)."""
import enum
import json
import multiprocessing
import os
import subprocess
import sys
import tempfile
import time
import traceback
from fractions import Fraction

import z3

from .sym import (isz, is_symint, is_symreal, is_symbool, zi, zb, simp, as_const, as_bool_const, Seq, Elems, Gen,
                  SymEnum, Obj, PyList, PyDict, PySet, ExcVal, exc_isinstance)
from .interp import Interp, Ctx, explore, PyExc, Unsupported, Infeasible, PathLimit, EnvObj
from .loader import Program
from . import models

VERIF = os.path.dirname(os.path.dirname(os.path.abspath(__file__)))
CVC5 = "/usr/bin/cvc5"
NATIVE_PY = os.environ.get("PYVC_NATIVE_PY", "/venv/bin/python")


class Obligation:
    def __init__(self, name, ctx, goal, kind="ensures", note="", prop_level=True, pc=None):
        self.name = name
        self.pc = list(ctx.pc) if pc is None else list(pc)
        self.goal = goal
        self.kind = kind
        self.note = note
        self.inexact = ctx.inexact
        self.inputs = dict(ctx.inputs)
        self.prop_level = prop_level
        self.notes = list(ctx.notes)


def outcome_of(thunk):
    """('ret', value) or ('exc', ExcVal)"""
    try:
        return ("ret", thunk())
    except PyExc as pe:
        return ("exc", pe.exc)


def exc_compatible(code_exc, spec_exc):
    """spec raises Reject('A','B') (any of the classes) or a plain class; code must raise a subclass"""
    if spec_exc.cls == "Reject":
        targets = [a for a in spec_exc.args if isinstance(a, str)] or ["Exception"]
    else:
        targets = [spec_exc.cls]
    return any(exc_isinstance(code_exc.cls, t) for t in targets)


def equiv_obligations(ip, ctx, name, ob, os_, prop_level=True):
    """obligations stating that the code outcome `ob` agrees with the spec outcome `os_` on this path"""
    kb, vb = ob
    ks, vs = os_
    if kb == "ret" and ks == "ret":
        return [Obligation(name + "/result", ctx, deep_equals(ip, vb, vs, ctx), "ensures", prop_level=prop_level)]
    if kb == "exc" and ks == "exc":
        ok = exc_compatible(vb, vs)
        return [Obligation(name + "/raises", ctx, ok, "raises", note=f"code raises {vb.cls}, spec {vs.cls}{vs.args}",
                           prop_level=prop_level)]
    if kb == "exc":
        return [Obligation(name + "/no-raise", ctx, False, "raises",
                           note=f"code raises {vb.cls}{vb.args} where the spec returns normally", prop_level=prop_level)]
    return [Obligation(name + "/must-raise", ctx, False, "raises",
                       note=f"code returns normally where the spec demands {vs.cls}{vs.args}", prop_level=prop_level)]


def deep_equals(ip, a, b, ctx):
    """equality used by obligations: like == but structural on analysed objects (field by field)"""
    if isinstance(a, Obj) and isinstance(b, (Obj, PyDict, dict)):
        bd = b.attrs if isinstance(b, Obj) else (b.d if isinstance(b, PyDict) else b)
        conj = []
        for k, v in bd.items():
            if k not in a.attrs:
                return False
            conj.append(deep_equals(ip, a.attrs[k], v, ctx))
        return ip.conj(conj)
    if isinstance(a, PySet) and isinstance(b, PySet):
        return a.s == b.s
    if isinstance(a, (tuple, PyList)) and isinstance(b, (tuple, PyList)):
        la = a.items if isinstance(a, PyList) else list(a)
        lb = b.items if isinstance(b, PyList) else list(b)
        if len(la) != len(lb):
            return False
        return ip.conj([deep_equals(ip, x, y, ctx) for x, y in zip(la, lb)])
    return ip.equals(a, b, ctx)


# ------------------------------------------------------------------------------------------------
def model_value(m, t):
    v = m.eval(t, model_completion=True)
    if z3.is_int_value(v):
        return v.as_long()
    if z3.is_rational_value(v):
        return Fraction(v.numerator_as_long(), v.denominator_as_long())
    if z3.is_true(v):
        return True
    if z3.is_false(v):
        return False
    if z3.is_algebraic_value(v):
        return float(v.approx(20).as_fraction())
    return str(v)


MAXLEN = 6000
TRUNCATED = [False]      # set when a model value was too long to be written out: the concrete input is then not the model's


def concretise(v, m):
    """symbolic value -> JSON-able tagged concrete value under model m"""
    if v is None or isinstance(v, (bool, str)):
        return v
    if isinstance(v, int):
        return v
    if isinstance(v, float):
        return {"t": "float", "v": v}
    if isinstance(v, bytes):
        return {"t": "bytes", "hex": v.hex()}
    if isinstance(v, enum.Enum):
        return {"t": "enum", "cls": type(v).__name__, "name": v.name}
    if isinstance(v, SymEnum):
        i = model_value(m, zi(v.idx))
        return {"t": "enum", "cls": v.cls.__name__, "name": v.members[i].name}
    if isz(v):
        x = model_value(m, v)
        if isinstance(x, Fraction):
            return {"t": "frac", "n": x.numerator, "d": x.denominator}
        return x
    if getattr(v, "concretise", None) is not None and not isinstance(v, type):
        return v.concretise(m)
    if isinstance(v, Seq):
        items = []
        for g in v.segs:
            if isinstance(g, Elems):
                items += [model_value(m, zi(t)) if isz(t) else t for t in g.terms]
            else:
                L = model_value(m, zi(g.length))
                if not isinstance(L, int) or L > MAXLEN:
                    L = min(int(L) if isinstance(L, int) else 0, MAXLEN)
                    TRUNCATED[0] = True
                for i in range(max(L, 0)):
                    items.append(model_value(m, g.at(i)))
        if v.kind == 'bytes':
            return {"t": "bytes", "hex": bytes([x % 256 for x in items]).hex()}
        return "".join(chr(x) if 0 <= x < 0x110000 and not (0xD800 <= x < 0xE000) else "?" for x in items)
    if isinstance(v, (tuple, list)):
        return {"t": "tuple", "v": [concretise(x, m) for x in v]}
    if isinstance(v, PyList):
        return {"t": "list", "v": [concretise(x, m) for x in v.items]}
    if isinstance(v, PySet):
        return {"t": "set", "v": sorted((concretise(x, m) for x in v.s), key=repr)}
    if isinstance(v, PyDict):
        return {"t": "dict", "v": [[concretise(k, m), concretise(x, m)] for k, x in v.d.items()]}
    if isinstance(v, ExcVal):
        return {"t": "exc", "cls": v.cls}
    from .sym import Rat
    if isinstance(v, Rat):
        n = model_value(m, zi(v.n)) if isz(v.n) else v.n
        f = Fraction(n, v.d)
        return {"t": "frac", "n": f.numerator, "d": f.denominator}
    if isinstance(v, models.SymTimedelta):
        return {"t": "timedelta", "s": concretise(v.secs, m)}
    if isinstance(v, Obj):
        return {"t": "obj", "cls": v.cls.name, "attrs": {k: concretise(x, m) for k, x in v.attrs.items()
                                                          if not k.startswith("$")}}
    c = getattr(v, "concretise", None)
    if c is not None:
        return c(m)
    return {"t": "opaque", "repr": repr(v)[:80]}


def term_symbols(t, acc=None, seen=None):
    """names of the uninterpreted constants / functions occurring in a z3 term"""
    acc = set() if acc is None else acc
    seen = set() if seen is None else seen
    stack = [t]
    while stack:
        x = stack.pop()
        if not isz(x):
            continue
        i = x.get_id()
        if i in seen:
            continue
        seen.add(i)
        if z3.is_app(x):
            d = x.decl()
            if d.kind() == z3.Z3_OP_UNINTERPRETED:
                acc.add(d.name())
            stack.extend(x.children())
        elif z3.is_quantifier(x):
            stack.append(x.body())
    return acc


def value_symbols(v, acc=None):
    acc = set() if acc is None else acc
    if isz(v):
        term_symbols(v, acc)
    elif isinstance(v, Seq):
        for g in v.segs:
            if isinstance(g, Elems):
                for t in g.terms:
                    if isz(t):
                        term_symbols(t, acc)
            else:
                term_symbols(zi(g.length), acc)
                term_symbols(g.at(z3.Int("idx!probe")), acc)
    elif isinstance(v, SymEnum):
        term_symbols(zi(v.idx), acc)
    elif isinstance(v, (tuple, list)):
        for x in v:
            value_symbols(x, acc)
    elif isinstance(v, PyList):
        for x in v.items:
            value_symbols(x, acc)
    elif isinstance(v, PyDict):
        for x in v.d.values():
            value_symbols(x, acc)
    elif isinstance(v, Obj):
        for x in v.attrs.values():
            value_symbols(x, acc)
    elif isinstance(v, models.SymTimedelta):
        value_symbols(v.secs, acc)
    elif type(v).__name__ == "Rat":
        value_symbols(v.n, acc)
    return acc


# ------------------------------------------------------------------------------------------------
def run_cvc5(smt2, timeout_s):
    with tempfile.NamedTemporaryFile("w", suffix=".smt2", delete=False, dir=os.environ.get("TMPDIR", "/tmp")) as fh:
        fh.write("(set-logic ALL)\n" + smt2 + "\n")
        path = fh.name
    try:
        r = subprocess.run([CVC5, "--lang", "smt2", f"--tlimit={int(timeout_s * 1000)}", path],
                           capture_output=True, text=True, timeout=timeout_s + 5)
        out = r.stdout.strip().splitlines()
        return out[0] if out else "unknown"
    except Exception:
        return "unknown"
    finally:
        os.unlink(path)


def discharge(ob, timeout_s=10, both=False):
    """returns dict(status, backend, seconds, model(optional z3 model))"""
    t0 = time.time()
    g = ob.goal
    c = g if isinstance(g, bool) else as_bool_const(g)
    res = {"name": ob.name, "kind": ob.kind, "note": ob.note, "inexact": ob.inexact, "prop_level": ob.prop_level}
    s = z3.Solver()
    s.set("timeout", int(timeout_s * 1000))
    for f in ob.pc:
        s.add(f)
    if c is True:
        res.update(status="discharged", backend="syntactic", seconds=0.0)
        return res, None
    if c is not False:
        s.add(z3.Not(g))
    s.set("timeout", int(min(timeout_s, 4) * 1000))
    r = s.check()
    backend = "z3"
    active = s
    if r == z3.unknown:
        # second strategy: purify arithmetic (names div/mod terms) before the SMT core; decides the nested div/mod
        # obligations of the encoders in milliseconds where the default strategy times out
        try:
            t = z3.Then('simplify', 'solve-eqs', 'purify-arith', 'smt').solver()
            t.set("timeout", int(timeout_s * 1000))
            for f in ob.pc:
                t.add(f)
            if c is not False:
                t.add(z3.Not(g))
            r2 = t.check()
            if r2 != z3.unknown:
                r, backend, active = r2, "z3-purify-arith", t
        except z3.Z3Exception:
            pass
    if r == z3.unknown and timeout_s > 4:
        s.set("timeout", int(timeout_s * 1000))
        r = s.check()
        active = s
    model = None
    if r == z3.unsat:
        res.update(status="discharged", backend=backend)
    elif r == z3.sat:
        model = active.model()
        res.update(status="refuted", backend=backend)
        if ob.inexact:
            res.update(status="unknown", backend=backend, reason="sat under a quantified/approximated assumption")
    else:
        res.update(status="unknown", backend=backend, reason=s.reason_unknown())
    if res["status"] == "unknown" or (both and res["status"] == "discharged"):
        cv = run_cvc5(s.to_smt2(), timeout_s)
        res["cvc5"] = cv
        if res["status"] == "unknown":
            if cv == "unsat":
                res.update(status="discharged", backend="cvc5")
            elif cv == "sat" and not ob.inexact:
                res.update(status="refuted", backend="cvc5")
        elif both and cv == "sat":
            res.update(status="unknown", backend="z3+cvc5", reason="solvers disagree (z3 unsat, cvc5 sat)")
    res["seconds"] = round(time.time() - t0, 4)
    return res, model


# ------------------------------------------------------------------------------------------------
class Unit:
    """a unit of verification work: fn(ip, ctx) -> list[Obligation]; explored over all paths in one worker"""
    def __init__(self, name, prop, fn, params=None, max_paths=20000, functions=(), witness=None, proves=None):
        self.proves = proves        # qualified name of the function whose call-site contract this unit discharges
        self.name = name
        self.prop = prop
        self.fn = fn
        self.params = params or {}
        self.max_paths = max_paths
        self.functions = tuple(functions)
        self.witness = witness      # optional fn(ctx, result) -> dict describing how to cross-check the path natively


_WORKER = {}


def _worker_init(src_root, spec_paths):
    z3.set_param("smt.random_seed", 0)
    P = Program(src_root)
    for name, path in spec_paths:
        P.add_module(name, path)
    _WORKER["P"] = P


def make_interp(contracts=None):
    """contracts listed in PYVC_INLINE (their proof failed on this run) are dropped: the callee's body is executed
    instead, so that a property-level obligation of the caller decides (DESIGN.md 2.7)"""
    inline = set(x for x in os.environ.get("PYVC_INLINE", "").split(",") if x)
    if contracts and inline:
        contracts = {k: v for k, v in contracts.items() if k not in inline}
    ip = Interp(_WORKER["P"], contracts=contracts)
    return ip


def _host_actual(dotted):
    import sys
    return {"sys.byteorder": sys.byteorder}.get(dotted)


class UnitBudget(BaseException):
    """raised by the CPU-time alarm inside a path that alone exceeds the unit budget (BaseException: not swallowed by the
    `except Exception` clauses of witness / concretisation code)"""


def _budget_alarm(signum, frame):
    raise UnitBudget()


def run_unit(args):
    """executed in a worker process; returns a JSON-able summary"""
    import signal
    modname, unit_name, tier, opts = args
    t0 = time.time()
    c0 = time.process_time()
    out = {"unit": unit_name, "obligations": [], "paths": 0, "error": None, "oos": None, "witnesses": [],
           "models_used": [], "contracts_used": [], "functions": []}
    try:
        mod = __import__(modname, fromlist=["units"])
        unit = mod.units(tier)[unit_name]
        out["functions"] = list(unit.functions)
        ip = mod.interp_for(unit) if hasattr(mod, "interp_for") else make_interp()
        timeout = opts.get("timeout_s", 10)
        used = set()
        cused = set()

        def run(ctx):
            return unit.fn(ip, ctx, **{k: v for k, v in unit.params.items() if k != "may_be_empty"})
        # budgets are CPU seconds of this worker (a loaded machine does not flip a verdict); the alarm cuts a single path that
        # alone runs away (changed code can make one path arbitrarily expensive)
        budget = opts.get("unit_budget_s", 150)
        signal.signal(signal.SIGPROF, _budget_alarm)
        signal.setitimer(signal.ITIMER_PROF, budget)
        for ctx, obs in explore(run, max_paths=unit.max_paths):
            if time.process_time() - c0 > budget:
                # undecided, never a violation by itself: what was explored so far is kept, the rest falls to the native stand-in
                out["oos"] = f"unit time budget of {budget} s exhausted after {out['paths']} paths"
                break
            out["paths"] += 1
            used |= ctx.used_models
            cused |= ctx.used_contracts
            path_model = None
            for ob in obs or []:
                res, model = discharge(ob, timeout, both=opts.get("both", False))
                if res["status"] == "refuted" and model is not None:
                    try:
                        res["inputs"] = {k: concretise(v, model) for k, v in ob.inputs.items()}
                    except Exception as e:      # concretisation problems must not hide the refutation
                        res["inputs_error"] = repr(e)
                res["path"] = out["paths"]
                out["obligations"].append(res)
            if unit.witness is not None and opts.get("witnesses", True):
                try:
                    if ctx.check() == z3.sat:
                        m = ctx.solver.model()
                        TRUNCATED[0] = False
                        w = unit.witness(ctx, m)
                        if TRUNCATED[0]:
                            w = None          # the path needs an input longer than what is replayed natively
                        hc = getattr(ctx, "_hostchoices", None)
                        if hc and any(v != _host_actual(k) for k, v in hc.items()):
                            w = None          # the path assumes another host than the one the natives run on
                        if w is not None:
                            w["path"] = out["paths"]
                            out["witnesses"].append(w)
                except Exception as e:
                    out["witnesses"].append({"error": repr(e), "path": out["paths"]})
        out["models_used"] = sorted(used)
        out["contracts_used"] = sorted(cused)
    except UnitBudget:
        out["oos"] = f"unit time budget exhausted inside one path after {out['paths']} complete paths"
    except Unsupported as u:
        out["oos"] = str(u)
    except PathLimit as pl:
        out["oos"] = str(pl)
    except Exception:
        out["error"] = traceback.format_exc()
    finally:
        signal.setitimer(signal.ITIMER_PROF, 0)
    out["seconds"] = round(time.time() - t0, 3)
    out["cpu_seconds"] = round(time.process_time() - c0, 3)
    return out


def run_units(modname, unit_names, tier, opts, spec_paths, src_root=None, procs=None):
    procs = procs or min(16, os.cpu_count() or 4, max(1, len(unit_names)))
    ctxmp = multiprocessing.get_context("fork")
    args = [(modname, u, tier, opts) for u in unit_names]
    if procs == 1 or len(unit_names) == 1:
        _worker_init(src_root, spec_paths)
        return [run_unit(a) for a in args]
    with ctxmp.Pool(procs, initializer=_worker_init, initargs=(src_root, spec_paths), maxtasksperchild=8) as pool:
        return pool.map(run_unit, args, chunksize=1)


def run_native(cases, timeout=900):
    """runs native cases (list of dicts) under the repository's interpreter; returns list of result dicts"""
    if not cases:
        return []
    tmpdir = tempfile.mkdtemp(prefix="pyvc_native_", dir=os.environ.get("TMPDIR"))
    path = os.path.join(tmpdir, "cases.json")
    try:
        with open(path, "w") as fh:
            json.dump(cases, fh)
        env = dict(os.environ)
        env["PYTHONPATH"] = os.environ.get("PYVC_SRC", "/repo/src") + os.pathsep + VERIF
        # natives run in a zone with a non-hour offset and DST so that UTC/local confusions show; zone-sensitive
        # cases set their own zone
        env["TZ"] = os.environ.get("PYVC_NATIVE_TZ", "Australia/Lord_Howe")
        r = subprocess.run([NATIVE_PY, "-m", "native.runner", path], capture_output=True, text=True, cwd=VERIF,
                           env=env, timeout=timeout)
        if r.returncode != 0:
            raise RuntimeError("native runner failed: " + r.stderr[-2000:])
        return json.loads(r.stdout)
    finally:
        try:
            os.unlink(path)
            os.rmdir(tmpdir)
        except OSError:
            pass
