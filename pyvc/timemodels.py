"""Models of datetime / time (DESIGN.md 3.1): integers for dates and times, uninterpreted libc functions.

Clock reads create fresh symbols recorded in ghost clock_reads:
   time.time()            -> real NOW
   datetime.utcnow()      -> (UDAY, USOD)   day since epoch / second of day, UTC
   datetime.now()         -> (LDAY, LSOD)   local; the only relation to UTC is LOCAL = UTC + OFFSET, OFFSET free in [-12h, +14h]
   time.strftime(fmt)     -> local date LDATE = (Y, M, D) consistent with datetime.now() on the same path
"""
import z3

from .sym import (isz, is_symint, is_symreal, zi, zb, simp, as_const, fresh_name, Elems, Gen, Seq, seq_concat,
                  ExcVal, IntS, array_gen, char_fact)
from . import seqops
from .models import (SymTime, SymDateTime, SymTimedelta, StructTime, MKTIME, LT_HOUR, LT_MIN, LT_OK, _raise, _uns)


def _I():
    from . import interp
    return interp


class TimeStr(Seq):
    """an arbitrary user string, abstracted by parse classes (DESIGN.md 4/C11) and still usable as text:
       ncolon in {0,1,2+};  part0 class: 0 'H' (1-2 digits, < 24), 1 'WSH' (blanks then H), 2 other;
       part1 class: 0 'M' (1-2 digits, < 60), 1 other.
       When the string is a valid HH:MM its characters are DEFINED by (H, M, number of digits of each), so that text
       built from it is exact; otherwise the characters are an unconstrained array."""
    __slots__ = ("name", "nc", "c0", "c1", "hv", "mv", "hd", "md")

    def __init__(self, name, ctx):
        self.name = name
        self.nc = z3.Int(name + "$ncolon")      # 0, 1, 2 (= 2 or more)
        self.c0 = z3.Int(name + "$class0")
        self.c1 = z3.Int(name + "$class1")
        self.hv = z3.Int(name + "$H")
        self.mv = z3.Int(name + "$M")
        self.hd = z3.Int(name + "$Hdigits")
        self.md = z3.Int(name + "$Mdigits")
        nc, c0, c1, hv, mv, hd, md = self.nc, self.c0, self.c1, self.hv, self.mv, self.hd, self.md
        ctx.fact(z3.And(nc >= 0, nc <= 2, c0 >= 0, c0 <= 2, c1 >= 0, c1 <= 1, hv >= 0, hv < 24, mv >= 0, mv < 60,
                        hd >= 1, hd <= 2, md >= 1, md <= 2, z3.Implies(hd == 1, hv < 10), z3.Implies(md == 1, mv < 10)))
        valid = z3.And(nc == 1, c0 == 0, c1 == 0)
        raw = z3.Array(name + "$raw", IntS, IntS)
        rawlen = z3.Int(name + "$rawlen")
        ctx.fact(z3.And(rawlen >= 0, rawlen <= 64))
        L = z3.If(valid, hd + 1 + md, rawlen)

        def fn(i):
            hpart = z3.If(hd == 2, z3.If(i == 0, hv / 10 + 48, hv % 10 + 48), hv + 48)
            j = i - hd - 1
            mpart = z3.If(md == 2, z3.If(j == 0, mv / 10 + 48, mv % 10 + 48), mv + 48)
            return z3.If(valid, z3.If(i < hd, hpart, z3.If(i == hd, z3.IntVal(58), mpart)), z3.Select(raw, i))
        g = Gen(L, fn, ("timestr", name), 0, (), None, char_fact)
        Seq.__init__(self, 'str', [g])

    def valid(self):
        return simp(z3.And(self.nc == 1, self.c0 == 0, self.c1 == 0))

    def concretise(self, m):
        from .engine import model_value
        nc, c0, c1 = (model_value(m, x) for x in (self.nc, self.c0, self.c1))
        hv, mv, hd, md = (model_value(m, x) for x in (self.hv, self.mv, self.hd, self.md))
        hs = str(hv).rjust(hd, "0")
        ms = str(mv).rjust(md, "0")
        p0 = {0: hs, 1: " " + hs, 2: hs + "x"}[c0]
        p1 = {0: ms, 1: ms + "x"}[c1]
        if nc == 0:
            return p0
        if nc == 1:
            return p0 + ":" + p1
        return p0 + ":" + p1 + ":30"


class TimeStrPart:
    def __init__(self, ts, index):
        self.ts = ts
        self.index = index


class TimeStrParts:
    """result of TimeStr.split(':'): a list of 1, 2 or >= 3 parts"""
    def __init__(self, ts, n):
        self.ts = ts
        self.n = n   # 1, 2 or 3 (meaning 3 or more)


class DatedTimeStr:
    """date + ' ' + part0 + ':' + part1"""
    def __init__(self, date, ts):
        self.date = date
        self.ts = ts


def clock(ctx, kind):
    """per-path clock symbols, created on first use.  All relations are linear (no div/mod):
         utc   = (UDAY, UH, UM, US)      local = (LDAY, LH, LM, LS)      offset = 60 * OFFM, OFFM in [-720, 840]
         LDAY*86400 + 3600 LH + 60 LM + LS  ==  UDAY*86400 + 3600 UH + 60 UM + US + 60 OFFM
       weekday symbols: UDAY = 7 UK + UW - 3 ... i.e. (UDAY + 3) mod 7 == UW with 0 <= UW < 7 (same for local)"""
    c = getattr(ctx, "_clock", None)
    if c is None:
        c = {}
        ctx._clock = c
        n = fresh_name("clk")
        v = {k: z3.Int(f"{k}!{n}") for k in ("UK", "UW", "UH", "UM", "US", "LW", "LH", "LM", "LS", "OFFM", "DD", "CW")}
        uday = 7 * v["UK"] + v["UW"] - 3
        lday = uday + v["DD"]
        usod = 3600 * v["UH"] + 60 * v["UM"] + v["US"]
        lsod = 3600 * v["LH"] + 60 * v["LM"] + v["LS"]
        # small-coefficient form of  local = utc + offset  (DD = day shift, CW = weekday wrap)
        ctx.fact(z3.And(v["UW"] >= 0, v["UW"] < 7, v["LW"] >= 0, v["LW"] < 7, v["UK"] >= 1, v["UK"] < 8000,
                        v["UH"] >= 0, v["UH"] < 24, v["UM"] >= 0, v["UM"] < 60, v["US"] >= 0, v["US"] < 60,
                        v["LH"] >= 0, v["LH"] < 24, v["LM"] >= 0, v["LM"] < 60, v["LS"] == v["US"],
                        v["OFFM"] >= -720, v["OFFM"] <= 840, v["DD"] >= -1, v["DD"] <= 1, v["CW"] >= -1, v["CW"] <= 1,
                        v["LW"] == v["UW"] + v["DD"] - 7 * v["CW"],
                        60 * v["LH"] + v["LM"] == 60 * v["UH"] + v["UM"] + v["OFFM"] - 1440 * v["DD"]))
        c["v"] = v
        c["utc"] = SymDateTime(uday, usod, "utc", (v["UH"], v["UM"], v["US"]))
        c["utc"].wd = v["UW"]
        c["local"] = SymDateTime(lday, lsod, "local", (v["LH"], v["LM"], v["LS"]))
        c["local"].wd = v["LW"]
        c["offset"] = 60 * v["OFFM"]
    return c[kind]


def dt_now(ip, args, kw, ctx, kind):
    d = clock(ctx, kind)
    ctx.ghost.clock_reads.append(("datetime." + ("utcnow" if kind == "utc" else "now"), d))
    ctx.used_models.add("datetime.now()/utcnow(): clock symbols (day, h, m, s); LOCAL = UTC + OFFSET with OFFSET free")
    return d


def hhmm_str(h, m, ctx):
    ts = [simp(zi(h) / 10 + 48), simp(zi(h) % 10 + 48), ord(":"), simp(zi(m) / 10 + 48), simp(zi(m) % 10 + 48)]
    ts = [as_const(t) if as_const(t) is not None else t for t in ts]
    return Seq('str', [Elems(ts)], tag=("HHMM", h, m))


def hhmmss_str(h, m, s, ctx):
    def two(v):
        return [simp(zi(v) / 10 + 48), simp(zi(v) % 10 + 48)]
    ts = two(h) + [ord(":")] + two(m) + [ord(":")] + two(s)
    ts = [as_const(t) if as_const(t) is not None else t for t in ts]
    return Seq('str', [Elems(ts)], tag=("HHMMSS", h, m, s))


def parse_hhmm(ip, s, ctx):
    """datetime.strptime(s, '%H:%M') -> (h, m) or raises ValueError.  Accepts exactly H{1,2}:M{1,2}, H<24, M<60"""
    ctx.used_models.add("strptime('%H:%M'): accepts exactly H{1,2}:M{1,2} with H<24, M<60")
    if isinstance(s, str):
        import datetime
        try:
            d = datetime.datetime.strptime(s, "%H:%M")
        except ValueError:
            _raise("ValueError", "time data does not match format")
        return d.hour, d.minute
    if isinstance(s, TimeStr):
        if ctx.branch(s.valid()):
            return s.hv, s.mv
        _raise("ValueError", "time data does not match format")
    if isinstance(s, Seq) and s.tag and s.tag[0] == "HHMM":
        return s.tag[1], s.tag[2]
    if isinstance(s, Seq) and s.fixed():
        ts = s.terms()
        # general symbolic text of fixed length: try the layouts  d:d  d:dd  dd:d  dd:dd
        n = len(ts)
        layouts = {3: (1, 1), 4: None, 5: (2, 2)}
        cands = []
        if n == 3:
            cands = [(1, 1)]
        elif n == 4:
            cands = [(1, 2), (2, 1)]
        elif n == 5:
            cands = [(2, 2)]
        for (a, b) in cands:
            dig = lambda t: z3.And(zi(t) >= 48, zi(t) <= 57)
            hd, md = ts[:a], ts[a + 1:]
            cond = z3.And([dig(t) for t in hd + md] + [zi(ts[a]) == 58])
            hv = zi(hd[0]) - 48 if a == 1 else (zi(hd[0]) - 48) * 10 + zi(hd[1]) - 48
            mv = zi(md[0]) - 48 if b == 1 else (zi(md[0]) - 48) * 10 + zi(md[1]) - 48
            cond = simp(z3.And(cond, hv < 24, mv < 60))
            if ctx.branch(cond):
                return simp(hv), simp(mv)
        _raise("ValueError", "time data does not match format")
    raise _uns("strptime on this text")


def m_strptime_dt(ip, args, kw, ctx):
    s, fmt = args
    if fmt != "%H:%M":
        raise _uns(f"datetime.strptime format {fmt}")
    h, m = parse_hhmm(ip, s, ctx)
    # 1900-01-01 is day -25567 since the epoch
    return SymDateTime(-25567, simp(zi(h) * 3600 + zi(m) * 60), "naive", (h, m, 0))


def m_time_ctor(ip, args, kw, ctx):
    names = ["hour", "minute", "second", "microsecond"]
    vals = dict(zip(names, args))
    vals.update(kw)
    h, m, s = vals.get("hour", 0), vals.get("minute", 0), vals.get("second", 0)
    for v in (h, m, s):
        if is_symreal(v) or isinstance(v, float):
            _raise("TypeError", "integer argument expected, got float")
    ok = simp(z3.And(zi(h) >= 0, zi(h) < 24, zi(m) >= 0, zi(m) < 60, zi(s) >= 0, zi(s) < 60))
    ctx.used_models.add("datetime.time(h, m, s): ValueError unless 0<=h<24, 0<=m<60, 0<=s<60; isoformat = HH:MM:SS")
    if not ctx.branch(ok):
        _raise("ValueError", "hour/minute/second must be in range")
    return SymTime(h, m, s)


def m_timedelta_ctor(ip, args, kw, ctx):
    names = ["days", "seconds", "microseconds", "milliseconds", "minutes", "hours", "weeks"]
    vals = dict(zip(names, args))
    vals.update(kw)
    if any(k in vals for k in ("microseconds", "milliseconds")):
        raise _uns("sub-second timedelta")
    tot = 0
    for k, mult in (("days", 86400), ("seconds", 1), ("minutes", 60), ("hours", 3600), ("weeks", 604800)):
        if k in vals:
            v = vals[k]
            if is_symreal(v) or isinstance(v, float):
                raise _uns("float timedelta argument")
            tot = tot + v * mult if not (isz(tot) or isz(v)) else simp(zi(tot) + zi(v) * mult)
    return SymTimedelta(tot)


def td_str(td, ctx):
    """str(timedelta) for second resolution: [N day[s], ]H:MM:SS"""
    ctx.used_models.add("str(timedelta): [N day[s], ]H:MM:SS")
    secs = zi(td.secs)
    days = simp(secs / 86400)
    rem = simp(secs % 86400)
    k = ctx.choose([days == 0, days == 1, days == -1, z3.And(days >= 2, days < 10), z3.Or(days < -1, days >= 10)])
    if k == 4:
        raise _uns("str(timedelta) beyond +-10 days")
    h = simp(rem / 3600)
    m = simp((rem / 60) % 60)
    s = simp(rem % 60)
    def two(v):
        return [simp(v / 10 + 48), simp(v % 10 + 48)]
    if ctx.branch(simp(h < 10)):
        hd = [simp(h + 48)]
    else:
        hd = two(h)
    ts = hd + [58] + two(m) + [58] + two(s)
    ts = [as_const(t) if as_const(t) is not None else t for t in ts]
    body = Seq('str', [Elems(ts)], tag=("TD", rem))
    if k == 0:
        return body
    if k == 1:
        return seq_concat(Seq.of("1 day, "), body)
    if k == 2:
        return seq_concat(Seq.of("-1 day, "), body)
    d = seqops.str_of_int(days, ctx)
    return seq_concat(seq_concat(Seq.of(d), Seq.of(" days, ")), body)


def local_date(ctx):
    """(Y, M, D) of the local clock: uninterpreted but tied to the local day number"""
    clock(ctx, "local")
    c = ctx._clock
    if "ldate" not in c:
        Y = z3.Int(fresh_name("LY"))
        M = z3.Int(fresh_name("LM"))
        D = z3.Int(fresh_name("LD"))
        ctx.fact(z3.And(Y >= 1970, Y <= 2105, M >= 1, M <= 12, D >= 1, D <= 31))
        c["ldate"] = (Y, M, D)
    return c["ldate"]


def m_time_strftime(ip, args, kw, ctx):
    fmt = args[0]
    if len(args) == 1:
        if fmt != "%d/%m/%Y":
            raise _uns(f"time.strftime({fmt!r}) of the current time")
        Y, M, D = local_date(ctx)
        ctx.ghost.clock_reads.append(("time.strftime", (Y, M, D)))
        ctx.used_models.add("time.strftime('%d/%m/%Y'): today's local date (Y, M, D) as DD/MM/YYYY")
        def two(v):
            return [simp(v / 10 + 48), simp(v % 10 + 48)]
        ts = two(D) + [47] + two(M) + [47] + [simp(Y / 1000 + 48), simp((Y / 100) % 10 + 48), simp((Y / 10) % 10 + 48), simp(Y % 10 + 48)]
        ctx._date_terms = ([t.get_id() if isz(t) else t for t in ts], (Y, M, D))
        return Seq('str', [Elems(ts)], tag=("DATE", Y, M, D))
    st = args[1]
    if not isinstance(st, StructTime):
        raise _uns("time.strftime of a non struct_time")
    if fmt == "%H:%M":
        ctx.used_models.add("time.strftime('%H:%M', tm): HH:MM of the struct's hour and minute")
        return hhmm_str(st.f["hour"], st.f["min"], ctx)
    raise _uns(f"time.strftime format {fmt}")


def m_time_strptime(ip, args, kw, ctx):
    s, fmt = args
    if fmt == "%H:%M":
        h, m = parse_hhmm(ip, s, ctx)
        return StructTime(year=1900, mon=1, mday=1, hour=h, min=m, sec=0)
    if fmt == "%d/%m/%Y":
        dt = getattr(ctx, "_date_terms", None)
        if isinstance(s, Seq) and s.fixed() and dt is not None and [t.get_id() if isz(t) else t for t in s.terms()] == dt[0]:
            Y, M, D = dt[1]
            return StructTime(year=Y, mon=M, mday=D, hour=0, min=0, sec=0)
        raise _uns("time.strptime('%d/%m/%Y') on text that is not today's formatted date")
    if fmt != "%d/%m/%Y %H:%M":
        raise _uns(f"time.strptime format {fmt}")
    ctx.used_models.add("time.strptime('%d/%m/%Y %H:%M'): date, blanks (\\s+), H{1,2}, ':', M{1,2}; fields in range; else ValueError")
    if isinstance(s, DatedTimeStr):
        ts = s.ts
        Y, M, D = s.date
        # the text is  DD/MM/YYYY ' ' part0 ':' part1 ; part0 may start with blanks (the format's blank matches \s+)
        ok = simp(z3.And(z3.Or(ts.c0 == 0, ts.c0 == 1), ts.c1 == 0))
        if not ctx.branch(ok):
            _raise("ValueError", "time data does not match format")
        return StructTime(year=Y, mon=M, mday=D, hour=ts.hv, min=ts.mv, sec=0)
    if isinstance(s, Seq) and s.fixed():
        # DATE-tagged prefix followed by a fixed-length tail " h:m"
        terms = s.terms()
        raise _uns("time.strptime on untagged text")
    raise _uns("time.strptime on this text")


def m_mktime(ip, args, kw, ctx):
    st = args[0]
    if not isinstance(st, StructTime):
        raise _uns("mktime of non struct_time")
    ctx.used_models.add("time.mktime: uninterpreted MKTIME(Y,M,D,h,m,s) (libc axiom L2: 0 <= MKTIME < 2^32 for 1970..2105); "
                        "returned as a float with integral value")
    f = st.f
    t = MKTIME(zi(f["year"]), zi(f["mon"]), zi(f["mday"]), zi(f["hour"]), zi(f["min"]), zi(f["sec"]))
    ctx.fact(z3.And(t >= 0, t < 2 ** 32))
    return z3.ToReal(t)


def m_localtime(ip, args, kw, ctx):
    t = args[0] if args else None
    if t is None:
        raise _uns("localtime() of now")
    if is_symreal(t):
        raise _uns("localtime(float)")
    ctx.used_models.add("time.localtime: uninterpreted LT_HOUR(t), LT_MIN(t) with 0<=h<24, 0<=m<60")
    h, m = LT_HOUR(zi(t)), LT_MIN(zi(t))
    ctx.fact(z3.And(h >= 0, h < 24, m >= 0, m < 60))
    return StructTime(hour=h, min=m, epoch=t)


GM_HOUR = z3.Function("GM_HOUR", IntS, IntS)
GM_MIN = z3.Function("GM_MIN", IntS, IntS)


def m_gmtime(ip, args, kw, ctx):
    """UTC broken-down time: (t div 3600) mod 24, (t div 60) mod 60 -- unrelated to the local time of the host zone"""
    t = args[0] if args else None
    if t is None or is_symreal(t):
        raise _uns("gmtime() of now / of a float")
    ctx.used_models.add("time.gmtime: hour = (t div 3600) mod 24, minute = (t div 60) mod 60 (UTC)")
    return StructTime(hour=simp((zi(t) / 3600) % 24), min=simp((zi(t) / 60) % 60), epoch=t)


def time_method(ip, o, name, args, kw, ctx):
    I = _I()
    if isinstance(o, SymTime):
        if name == "isoformat":
            return hhmmss_str(o.h, o.m, o.s, ctx)
        if name == "strftime":
            if args[0] == "%H:%M":
                return hhmm_str(o.h, o.m, ctx)
            raise _uns("time.strftime format")
        if name == "__cmp__":
            op, other = args
            if not isinstance(other, SymTime):
                _raise("TypeError", "unorderable")
            a, b = o.sod(), other.sod()
            return simp({"Lt": a < b, "LtE": a <= b, "Gt": a > b, "GtE": a >= b}[op])
        if name == "__eq__":
            other = args[0]
            if not isinstance(other, SymTime):
                return False
            return simp(o.sod() == other.sod())
        if name == "__getattr__":
            a = args[0]
            if a in ("hour", "minute", "second"):
                return {"hour": o.h, "minute": o.m, "second": o.s}[a]
            return I.MethodRef(o, a)
        if name == "__bool__":
            return True
        return NotImplemented
    if isinstance(o, SymDateTime):
        if name == "weekday":
            # 1970-01-01 was a Thursday (weekday 3)
            if getattr(o, "wd", None) is not None:
                return o.wd
            return simp((zi(o.day) + 3) % 7)
        if name == "time":
            h, m, s_ = o.parts()
            return SymTime(h, m, s_)
        if name == "strftime":
            if args[0] == "%H:%M":
                h, m, s_ = o.parts()
                return hhmm_str(h, m, ctx)
            raise _uns("datetime.strftime format")
        if name == "__cmp__":
            op, other = args
            if not isinstance(other, SymDateTime):
                _raise("TypeError", "unorderable")
            a, b = o.total(), other.total()
            return simp({"Lt": a < b, "LtE": a <= b, "Gt": a > b, "GtE": a >= b}[op])
        if name == "__eq__":
            other = args[0]
            if not isinstance(other, SymDateTime):
                return False
            return simp(o.total() == other.total())
        if name == "__binop__":
            op, other, swapped = args
            if op == "Add" and isinstance(other, SymTimedelta):
                tot = simp(o.total() + zi(other.secs))
                return SymDateTime(simp(tot / 86400), simp(tot % 86400), o.clock)
            if op == "Sub" and not swapped and isinstance(other, SymTimedelta):
                tot = simp(o.total() - zi(other.secs))
                return SymDateTime(simp(tot / 86400), simp(tot % 86400), o.clock)
            if op == "Sub" and isinstance(other, SymDateTime):
                d = simp(o.total() - other.total())
                return SymTimedelta(simp(-d) if swapped else d)
            return NotImplemented
        if name == "__getattr__":
            a = args[0]
            if a in ("hour", "minute", "second"):
                h, m, s_ = o.parts()
                return {"hour": h, "minute": m, "second": s_}[a]
            return I.MethodRef(o, a)
        if name == "__bool__":
            return True
        return NotImplemented
    if isinstance(o, SymTimedelta):
        if name == "total_seconds":
            from .sym import Rat
            return Rat(o.secs, 1) if isz(o.secs) else float(o.secs)
        if name == "__str__" or name == "__format__":
            return td_str(o, ctx)
        if name == "__binop__":
            op, other, swapped = args
            if isinstance(other, SymTimedelta):
                if op == "Add":
                    return SymTimedelta(simp(zi(o.secs) + zi(other.secs)))
                if op == "Sub":
                    d = simp(zi(o.secs) - zi(other.secs))
                    return SymTimedelta(simp(-d) if swapped else d)
                if op in ("Mod", "FloorDiv"):
                    num, den = (other, o) if swapped else (o, other)
                    c = den.secs if isinstance(den.secs, int) else ctx.concrete_int(zi(den.secs))
                    if c is None or c <= 0:
                        raise _uns("timedelta % or // by a symbolic or non-positive timedelta")
                    # floor semantics of timedelta arithmetic: 0 <= remainder < divisor for a positive divisor (z3 div/mod agree)
                    if op == "Mod":
                        return SymTimedelta(simp(zi(num.secs) % c))
                    return simp(zi(num.secs) / c)
            return NotImplemented
        if name == "__cmp__":
            op, other = args
            if not isinstance(other, SymTimedelta):
                _raise("TypeError", "unorderable")
            a, b = zi(o.secs), zi(other.secs)
            return simp({"Lt": a < b, "LtE": a <= b, "Gt": a > b, "GtE": a >= b}[op])
        if name == "__eq__":
            other = args[0]
            if not isinstance(other, SymTimedelta):
                return False
            return simp(zi(o.secs) == zi(other.secs))
        if name == "__getattr__":
            a = args[0]
            if a == "days":
                return simp(zi(o.secs) / 86400)
            if a == "seconds":
                return simp(zi(o.secs) % 86400)
            return I.MethodRef(o, a)
        if name == "__bool__":
            return simp(zi(o.secs) != 0)
        return NotImplemented
    if isinstance(o, StructTime):
        if name == "__getattr__":
            a = args[0]
            m = {"tm_hour": "hour", "tm_min": "min", "tm_year": "year", "tm_mon": "mon", "tm_mday": "mday", "tm_sec": "sec"}
            if a in m and m[a] in o.f:
                return o.f[m[a]]
            raise _uns("struct_time." + a)
        return NotImplemented
    if isinstance(o, TimeStr):
        if name == "split":
            if args != [":"] and args != (":",):
                if list(args) != [":"]:
                    raise _uns("TimeStr.split with another separator")
            ctx.used_models.add("str.split(':') on an opaque time string: 1, 2 or >=3 parts by the number of colons")
            k = ctx.choose([o.nc == 0, o.nc == 1, o.nc == 2])
            return TimeStrParts(o, k + 1)
        return NotImplemented
    if isinstance(o, TimeStrParts):
        if name == "__getitem__":
            i = ip.need_concrete_int(args[0], ctx)
            if i < 0:
                raise _uns("negative index into split parts")
            if i >= o.n and not (o.n == 3):
                _raise("IndexError", "list index out of range")
            if i >= 2:
                raise _uns("parts beyond the second")
            return TimeStrPart(o.ts, i)
        if name == "__len__":
            if o.n == 3:
                raise _uns("len of >= 3 parts")
            return o.n
        if name == "__iter__":
            if o.n == 3:
                raise _uns("iteration over >= 3 split parts")
            return [TimeStrPart(o.ts, i) for i in range(o.n)]
        return NotImplemented
    if isinstance(o, TimeStrPart):
        if name == "__int__":
            # int(text) of the part before / after the first colon: the number for the digit classes (int() also
            # tolerates surrounding blanks); other text either raises ValueError or is some integer (int() accepts
            # signs, underscores, other digit scripts): over-approximated, marked inexact
            ts = o.ts
            ctx.used_models.add("int(part of an opaque time string): H / M value for the digit classes, ValueError or any int otherwise")
            if o.index == 0:
                k = ctx.choose([z3.Or(ts.c0 == 0, ts.c0 == 1), ts.c0 == 2])
                if k == 0:
                    return ts.hv
            else:
                k = ctx.choose([ts.c1 == 0, ts.c1 == 1])
                if k == 0:
                    return ts.mv
            ctx.inexact = True
            if ctx.fork(2) == 0:
                _raise("ValueError", "invalid literal for int()")
            return ctx.fresh_int("anyint")
        if name == "__binop__":
            raise _uns("operator on a time string part")
        return NotImplemented
    return NotImplemented


class ConcatChain:
    """left-associated concatenation whose pieces include opaque TimeStr parts"""
    def __init__(self, pieces):
        self.pieces = pieces


def chain_method(ip, o, name, args, kw, ctx):
    if name != "__binop__":
        return NotImplemented
    op, other, swapped = args
    if op != "Add":
        return NotImplemented
    if not isinstance(o, (TimeStrPart, ConcatChain)):
        return NotImplemented
    left, right = (other, o) if swapped else (o, other)
    lp = left.pieces if isinstance(left, ConcatChain) else [left]
    rp = right.pieces if isinstance(right, ConcatChain) else [right]
    for x in lp + rp:
        if not isinstance(x, (str, Seq, TimeStrPart)):
            _raise("TypeError", "can only concatenate str")
    return chain_normalise(ConcatChain(lp + rp), ctx)


def chain_normalise(ch, ctx):
    """recognises  DATE ' ' part0 ':' part1  built by left-associated +"""
    p = ch.pieces
    if len(p) == 4:
        a, b, c, d = p
        if isinstance(a, Seq) and isinstance(b, TimeStrPart) and c == ":" and isinstance(d, TimeStrPart) \
                and b.index == 0 and d.index == 1 and b.ts is d.ts and a.fixed():
            ts = a.terms()
            dt = getattr(ctx, "_date_terms", None)
            if dt is not None and len(ts) == 11 and ts[10] == 32 and [t.get_id() if isz(t) else t for t in ts[:10]] == dt[0]:
                return DatedTimeStr(dt[1], b.ts)
    return ch


def install(ip):
    I = _I()
    B = I.Builtin
    e = ip.ext_models
    e["time.time"] = B("time.time", __import__("pyvc.models", fromlist=["b_time_time"]).b_time_time)
    e["time.strftime"] = B("time.strftime", m_time_strftime)
    e["time.strptime"] = B("time.strptime", m_time_strptime)
    e["time.mktime"] = B("time.mktime", m_mktime)
    e["time.localtime"] = B("time.localtime", m_localtime)
    e["time.gmtime"] = B("time.gmtime", m_gmtime)
    e["datetime.time"] = B("datetime.time", m_time_ctor)
    e["datetime.timedelta"] = B("datetime.timedelta", m_timedelta_ctor)
    e["datetime.datetime"] = I.EnvObj("datetime_class")
    ip.method_models.insert(0, time_method)
    ip.method_models.insert(0, chain_method)
    ip.method_models.insert(0, dtclass_method)


def dtclass_method(ip, o, name, args, kw, ctx):
    I = _I()
    if not (isinstance(o, I.EnvObj) and o.kind == "datetime_class"):
        return NotImplemented
    if name == "utcnow":
        return dt_now(ip, args, kw, ctx, "utc")
    if name == "now":
        if args or kw:
            raise _uns("datetime.now(tz)")
        return dt_now(ip, args, kw, ctx, "local")
    if name == "strptime":
        return m_strptime_dt(ip, args, kw, ctx)
    if name == "__getattr__":
        return I.MethodRef(o, args[0])
    return NotImplemented
