"""C15 capabilities: an IR wave key abstracted by exactly what _resolve_capabilities observes of it, and the one-step
loop device used for the inductive proof of the fold (DESIGN.md 9.6)"""
import z3

from .sym import isz, zi, zb, simp, Seq, ExcVal, array_gen, char_fact, fresh_name


def _uns(msg):
    from .interp import Unsupported
    return Unsupported(msg)


class AbsKey:
    """an arbitrary key string seen through: its first two characters (one of the known mode codes, or something else),
    whether characters 2..4 are two digits and their value, the fan token the regular expression .+(f\\d) captures
    (none, f0..f3), and whether it contains 'd1'"""
    def __init__(self, name, ctx, prefixes):
        self.name = name
        self.prefixes = list(prefixes)                 # the known two-character codes, in table order
        self.pfx = z3.Int(name + "$prefix")            # index into prefixes, len(prefixes) = some other text
        self.fan = z3.Int(name + "$fan")               # 0 = no token, 1..4 = f0..f3
        self.tdig = z3.Bool(name + "$temp_is_digits")
        self.tval = z3.Int(name + "$temp")
        self.d1 = z3.Bool(name + "$has_d1")
        ctx.fact(z3.And(self.pfx >= 0, self.pfx <= len(self.prefixes), self.fan >= 0, self.fan <= 4, self.tval >= 0, self.tval <= 99))
        self.text = Seq('str', [array_gen(name, ctx.fresh_int(name + "len", 0, 64), (), char_fact)])


class AbsPart:
    def __init__(self, key, which):
        self.key, self.which = key, which


class StoreLog:
    """a dict whose previous content is arbitrary: only the stores made on it are recorded"""
    def __init__(self):
        self.stores = []
        self.preexisting = False


class OneStep:
    """iterable standing for 'the next element of a list of arbitrary length': the loop body is executed once from the
    arbitrary pre-state the driver prepared; locals listed in pre_locals are set before the body"""
    def __init__(self, element, pre_locals):
        self.element, self.pre_locals = element, pre_locals


class LoopStepDone(Exception):
    def __init__(self, env):
        self.env = env


def cap_method(ip, o, name, args, kw, ctx):
    from .interp import MethodRef, PyExc
    if isinstance(o, AbsKey):
        if name == "__getslice__":
            lo, hi = args
            if (lo, hi) == (0, 2):
                return AbsPart(o, "prefix")
            if (lo, hi) == (2, 4):
                return AbsPart(o, "temp")
            raise _uns(f"slice [{lo}:{hi}] of an abstract IR key")
        if name == "__contains__":
            if args[0] == "d1":
                return o.d1
            raise _uns("substring test on an abstract IR key")
        if name == "__bool__":
            return True
        if name == "__eq__":
            return args[0] is o
        if name in ("__format__", "__str__"):
            return o.text
        return NotImplemented
    if isinstance(o, AbsPart):
        k = o.key
        if o.which == "prefix":
            if name == "__eq__":
                other = args[0]
                if isinstance(other, str):
                    return simp(k.pfx == k.prefixes.index(other)) if other in k.prefixes else False
                return other is o
        else:
            if name == "isdigit":
                return k.tdig
            if name == "__int__":
                if not ctx.entails(k.tdig):
                    if not ctx.branch(k.tdig):
                        raise PyExc(ExcVal("ValueError", ("invalid literal for int()",)))
                return k.tval
            if name == "__getattr__":
                return MethodRef(o, args[0])
        if name == "__bool__":
            return True
        return NotImplemented
    if isinstance(o, StoreLog):
        if name == "__setitem__":
            o.stores.append((args[0], args[1]))
            if o.preexisting:
                ctx.ghost.heap_writes.append((o, "item store"))
            return None
        raise _uns(f"{name} on a store-only dictionary")
    return NotImplemented


def re_match_model(ip, args, kw, ctx, fallback):
    from .interp import EnvObj
    pat, text = args[0], args[1]
    if isinstance(text, AbsKey):
        if pat != r".+(f\d)":
            raise _uns("re.match with another pattern on an abstract IR key")
        ctx.used_models.add("re.match(r'.+(f\\d)', key): none, or the token f0..f3 (keys with other fan digits are excluded by the precondition)")
        k = ctx.choose([text.fan == i for i in range(5)])
        if k == 0:
            return None
        return EnvObj("match", groups=["?", "f" + str(k - 1)])
    return fallback(ip, args, kw, ctx)


def loop_hook(ip, st, it, env, fr, ctx):
    if not isinstance(it, OneStep):
        return False
    for k, v in it.pre_locals.items():
        env[k] = v
    ip.assign(st.target, it.element, env, fr, ctx)
    from .interp import BreakEx, ContinueEx
    try:
        ip.block(st.body, env, fr, ctx)
    except ContinueEx:
        pass
    except BreakEx:
        raise _uns("break inside a loop proved by a one-step lemma")
    raise LoopStepDone(dict(env))


def install(ip):
    ip.method_models.insert(0, cap_method)
    ip.loop_hook = loop_hook
    old = ip.ext_models.get("re.match")
    from .interp import Builtin
    ip.ext_models["re.match"] = Builtin("re.match", lambda ip_, a, k, c: re_match_model(ip_, a, k, c, old.fn))
