"""Sidecar contracts used at call sites (DESIGN.md 2.5): when the executor meets a call of a function that has a
contract, the callee's body is NOT executed; the result is the value of the callee's specification function, and the
contract's precondition becomes an obligation of the caller.  The callee's body is verified against the same
specification separately (the unit that proves it runs with the contract switched off for that function)."""
from .sym import ExcVal
from .interp import PyExc, Unsupported


class SpecContract:
    def __init__(self, qualname, specname, argmap=None, requires=None, proved_by=None):
        self.qualname = qualname
        self.specname = specname
        self.argmap = argmap          # (ip, args, kwargs, ctx) -> list of spec arguments
        self.requires = requires      # (ip, sargs, ctx) -> Bool term / bool, checked at the call site
        self.proved_by = proved_by    # name of the unit(s) that discharge the callee's body against the spec

    def apply(self, ip, f, args, kwargs, ctx):
        sp = ip.P.func("spec." + self.specname)
        if sp is None:
            raise Unsupported("missing spec function " + self.specname)
        sargs = self.argmap(ip, list(args), kwargs, ctx) if self.argmap else list(args)
        ctx.used_contracts.add(self.qualname + " -> spec." + self.specname)
        if self.requires is not None:
            pre = self.requires(ip, sargs, ctx)
            reqs = getattr(ctx, "callsite_requires", None)
            if reqs is None:
                reqs = []
                ctx.callsite_requires = reqs
            reqs.append((self.qualname, list(ctx.pc), pre))
        try:
            return ip.call_function(sp, sargs, {}, ctx)
        except PyExc as pe:
            if pe.exc.cls == "Reject":
                classes = [a for a in pe.exc.args if isinstance(a, str)] or ["Exception"]
                k = ctx.fork(len(classes))
                e = ExcVal(classes[k], ("contract of " + self.qualname,))
                e.alts = classes
                raise PyExc(e)
            raise
