"""Specification vocabulary and reference functions (DESIGN.md 2.5).

This file is ordinary Python restricted to the executor's subset.  It is evaluated twice:
  * symbolically by pyvc (parsed, never imported there) to state obligations, and
  * natively by CPython (native/*.py) for replays, model cross-checks and bounded fall-backs,
so there is ONE specification.  Functions marked @primitive have a native body here and a symbolic
implementation in pyvc/specprims.py (uninterpreted symbols shared with the library models).

The top-level reference functions are transcribed from the property statements in properties.jsonl;
they do not import or call anything from aioswitcher.
"""
from binascii import hexlify, unhexlify


def primitive(f):
    return f


class Reject(Exception):
    """raise Reject('ValueError', 'IndexError'): the code must raise an instance of one of these classes"""


# ------------------------------------------------------------------------------------- primitives
@primitive
def crc16(data, init):
    """CRC-16/CCITT: polynomial 0x1021, MSB first, no reflection, no final xor (bitwise definition)"""
    crc = init & 0xFFFF
    for b in data:
        crc ^= b << 8
        for _ in range(8):
            if crc & 0x8000:
                crc = ((crc << 1) ^ 0x1021) & 0xFFFF
            else:
                crc = (crc << 1) & 0xFFFF
    return crc


@primitive
def is_hex(s):
    """every character is a hex digit (either case)"""
    if isinstance(s, bytes):
        s = s.decode("latin-1")
    return all(c in "0123456789abcdefABCDEF" for c in s)


@primitive
def amps_of(watts):
    """watts / 220 to one decimal.  Native: the float nearest to a decimal k/10 with |220k - 10 watts| <= 110,
    chosen as CPython's round() does for the float quotient; the native oracle check of this choice is
    amps_ok() below, which is what the exhaustive 16-bit sweep evaluates."""
    return round(watts / 220.0, 1)


def amps_ok(watts, amps):
    """rational specification of 'watts/220 to one decimal': amps is k/10 for an integer k with |220 k - 10 watts| <= 110"""
    k = round(amps * 10)
    return abs(amps - k / 10) < 1e-9 and abs(220 * k - 10 * watts) <= 110


@primitive
def tenths(v):
    """v / 10 as a float"""
    return v / 10


@primitive
def utf8(s):
    return s.encode("utf-8")


@primitive
def valid_hhmm(s):
    """H{1,2}:M{1,2} with H < 24 and M < 60: exactly the strings the '%H:%M' time format denotes (most lenient sensible
    reading of "a valid HH:MM": one or two digits each, any decimal digit character that int() accepts)"""
    import re
    return isinstance(s, str) and re.fullmatch(r"(2[0-3]|[0-1]\d|\d):([0-5]\d|\d)", s) is not None


@primitive
def hh_of(s):
    return int(s.split(":")[0])


@primitive
def mm_of(s):
    return int(s.split(":")[1])


@primitive
def all_of(conds):
    """conjunction of a list of conditions (evaluated without short-circuit)"""
    return all(conds)


@primitive
def implies(a, b):
    return (not a) or b


# ------------------------------------------------------------------------------------- byte helpers
@primitive
def le16(n):
    """the two bytes of n mod 2^16, least significant first"""
    return bytes([n % 256, (n // 256) % 256])


@primitive
def le32(n):
    """the four bytes of n mod 2^32, least significant first"""
    return bytes([n % 256, (n // 256) % 256, (n // 65536) % 256, (n // 16777216) % 256])


def hexs(b):
    """lower-case hex text of bytes"""
    return hexlify(b).decode()


def unhex(s):
    return unhexlify(s)


def two(n):
    """two decimal digits of 0 <= n <= 99"""
    return chr_digit(n // 10) + chr_digit(n % 10)


def hhmmss(sec):
    return two(sec // 3600) + ":" + two((sec // 60) % 60) + ":" + two(sec % 60)


def hhmm(h, m):
    return two(h) + ":" + two(m)


# ------------------------------------------------------------------------------------- C04
def sig(data):
    """the signing scheme: CRC of the data, little-endian, then the CRC of those two bytes followed by
    thirty-two 0x30 bytes, little-endian"""
    c1 = crc16(data, 0x1021)
    c2 = crc16(le16(c1) + b"0" * 32, 0x1021)
    return le16(c1) + le16(c2)


def sign_spec(p):
    if not (is_hex(p) and len(p) % 2 == 0):
        raise Reject("ValueError")
    return p + hexs(sig(unhex(p)))


# ------------------------------------------------------------------------------------- encoders (C02 helpers)
def minutes_spec(minutes):
    """timer seconds = 60 x minutes as LE32; beyond 32 bits raises"""
    if not (0 <= 60 * minutes < 4294967296):
        raise Reject("struct.error", "OverflowError", "ValueError")
    return hexs(le32(60 * minutes))


def auto_shutdown_spec(total_seconds):
    """whole minutes within 1h..23h59m, as LE32 seconds; outside the range raises ValueError"""
    s = 60 * (total_seconds // 60)
    if not (3600 <= s <= 86340):
        raise Reject("ValueError")
    return hexs(le32(s))


def name_spec(name):
    """the name as UTF-8 zero-padded to exactly 32 bytes; too short (< 2 characters) or too long for 32 bytes raises"""
    raw = utf8(name)
    if len(name) < 2 or len(raw) > 32:
        raise Reject("ValueError")
    return hexs(raw + b"\x00" * (32 - len(raw)))


def iso_time_spec(sec):
    """HH:MM:SS of a second count below one day; a day or more raises ValueError"""
    if sec < 0 or sec >= 86400:
        raise Reject("ValueError")
    return hhmmss(sec)


def timestamp_spec(now_rounded):
    """current time as LE32 (requires 0 <= now < 2^32)"""
    return hexs(le32(now_rounded))


def set_length_spec(message):
    """header bytes 2-3 := little-endian 16-bit total length of the signed frame (message + 4 signature bytes)"""
    return "fef0" + hexs(le16(len(message) // 2 + 4)) + message[8:]


# ------------------------------------------------------------------------------------- C12
# "Monday 0x02 ... Sunday 0x80": the bit of a weekday, keyed by the Enum member's name
DAY_BIT = {"MONDAY": 0x02, "TUESDAY": 0x04, "WEDNESDAY": 0x08, "THURSDAY": 0x10, "FRIDAY": 0x20, "SATURDAY": 0x40,
           "SUNDAY": 0x80}


@primitive
def day_bit(d):
    return DAY_BIT[d.name]


@primitive
def is_member(x, cls):
    return isinstance(x, cls)


@primitive
def pairwise_distinct(items):
    items = list(items)
    return all(items[i] is not items[j] for i in range(len(items)) for j in range(i))


def hex2(v):
    """two lower-case hex digits of 0 <= v <= 255"""
    return "0123456789abcdef"[v // 16] + "0123456789abcdef"[v % 16]


def weekdays_encode_spec(days, days_cls):
    """a single day, a non-empty set, or a non-empty duplicate-free sequence -> two hex digits with exactly those
    days' bits; empty or duplicate-bearing input is rejected"""
    if is_member(days, days_cls):
        return hex2(day_bit(days))
    if len(days) == 0 or not pairwise_distinct(days):
        raise Reject("ValueError")
    total = 0
    for d in days:
        total = total + day_bit(d)
    return hex2(total)


def weekdays_decode_spec(mask, days_cls):
    """masks 2..254 -> exactly the days whose bit is set; anything else is rejected"""
    if mask < 2 or mask > 254:
        raise Reject("ValueError")
    out = set()
    for d in days_cls:
        if (mask // day_bit(d)) % 2 == 1:
            out.add(d)
    return out


# ------------------------------------------------------------------------------------- C14 / C13
def td_text(sec):
    """H:MM:SS of 0 <= sec < 86400 (hours without zero padding, as a duration is printed)"""
    return str(sec // 3600) + ":" + two((sec // 60) % 60) + ":" + two(sec % 60)


def minute_of(t):
    return hh_of(t) * 60 + mm_of(t)


def duration_spec(start, end):
    """(end - start) modulo 24 hours, formatted H:MM:SS"""
    return td_text(60 * ((minute_of(end) - minute_of(start)) % 1440))


DAY_INDEX = {"MONDAY": 0, "TUESDAY": 1, "WEDNESDAY": 2, "THURSDAY": 3, "FRIDAY": 4, "SATURDAY": 5, "SUNDAY": 6}
DAY_TITLE = {"MONDAY": "Monday", "TUESDAY": "Tuesday", "WEDNESDAY": "Wednesday", "THURSDAY": "Thursday",
             "FRIDAY": "Friday", "SATURDAY": "Saturday", "SUNDAY": "Sunday"}


def next_run_spec(start, days, now_weekday, now_minute):
    """the earliest future occurrence.  now_weekday: local weekday (Monday = 0); now_minute: local minute of the day.
    delta(d) = days until the next occurrence on weekday d: 0 if d is today and the start is still ahead,
    7 if d is today and it is not, otherwise (d - today) mod 7."""
    if len(days) == 0:
        return "Due today at " + start
    s = minute_of(start)
    best = None
    best_delta = 8
    for d in days:
        delta = (DAY_INDEX[d.name] - now_weekday) % 7
        if delta == 0 and not (now_minute < s):
            delta = 7
        if delta < best_delta:
            best = d
            best_delta = delta
    if best_delta == 0:
        return "Due today at " + start
    if best_delta == 1:
        return "Due tomorrow at " + start
    return "Due next " + DAY_TITLE[best.name] + " at " + start


# ------------------------------------------------------------------------------------- C08 reference decoders
@primitive
def chr_digit(d):
    """the decimal digit character of 0 <= d <= 9"""
    return "0123456789"[d]


@primitive
def le16v(b):
    """value of two little-endian bytes"""
    return b[0] + 256 * b[1]


@primitive
def le32v(b):
    """value of four little-endian bytes"""
    return b[0] + 256 * b[1] + 65536 * b[2] + 16777216 * b[3]


def ref_login(r):
    """a login reply yields the four session bytes at offset 8 (as hex text)"""
    return hexs(r[8:12])


def wf_state1(r):
    if len(r) < 101:
        return False
    return all_of([r[75] <= 1, le32v(r[89:93]) < 86400, le32v(r[93:97]) < 86400, le32v(r[97:101]) < 86400])


def ref_state1(r, State):
    """type-1 state reply: state r[75], watts LE16 r[77:79], time left LE32 r[89:93], time on LE32 r[93:97],
    auto shutdown LE32 r[97:101]"""
    watts = le16v(r[77:79])
    return {"state": State["ON"] if r[75] == 1 else State["OFF"],
            "power_consumption": watts,
            "electric_current": amps_of(watts),
            "time_left": hhmmss(le32v(r[89:93])),
            "time_on": hhmmss(le32v(r[93:97])),
            "auto_shutdown": hhmmss(le32v(r[97:101])),
            "unparsed_response": r}


def wf_shutter(r):
    if len(r) < 80:
        return False
    return all_of([r[78] <= 1, r[79] <= 1, r[78] + r[79] <= 1])


def ref_shutter(r, Direction):
    """shutter state reply: position r[76], direction r[78:80] (0000 stop, 0100 up, 0001 down)"""
    if r[78] == 1:
        d = Direction["SHUTTER_UP"]
    elif r[79] == 1:
        d = Direction["SHUTTER_DOWN"]
    else:
        d = Direction["SHUTTER_STOP"]
    return {"position": r[76], "direction": d, "unparsed_response": r}


STATE_BY_CODE = {0: "OFF", 1: "ON"}
MODE_BY_CODE = {1: "AUTO", 2: "DRY", 3: "FAN", 4: "COOL", 5: "HEAT"}
FAN_BY_CODE = {0: "AUTO", 1: "LOW", 2: "MEDIUM", 3: "HIGH"}


@primitive
def pick(cls, table, code):
    """the member of Enum class cls whose name is table[code]"""
    return cls[table[code]]


def wf_thermostat(r, idlen):
    """well-formed thermostat reply whose remote id has idlen ASCII characters (no NUL) and is zero padded to 8 bytes"""
    if len(r) < 92:
        return False
    conds = [r[78] <= 1, r[79] >= 1, r[79] <= 5, r[81] // 16 <= 3, r[81] % 16 <= 1]
    for i in range(8):
        if i < idlen:
            conds.append(r[84 + i] >= 1)
            conds.append(r[84 + i] < 128)
        else:
            conds.append(r[84 + i] == 0)
    return all_of(conds)


def ref_thermostat(r, idlen, State, Mode, Fan, Swing):
    """thermostat reply: temperature LE16 r[76:78] in tenths, power r[78], mode r[79], target r[80],
    fan = high nibble of r[81], swing = low nibble, remote id r[84:92] NUL-stripped ASCII"""
    rid = ""
    for i in range(idlen):
        rid = rid + chr(r[84 + i])
    return {"state": pick(State, STATE_BY_CODE, r[78]),
            "mode": pick(Mode, MODE_BY_CODE, r[79]),
            "fan_level": pick(Fan, FAN_BY_CODE, r[81] // 16),
            "swing": pick(Swing, STATE_BY_CODE, r[81] % 16),
            "temperature": tenths(le16v(r[76:78])),
            "target_temperature": r[80],
            "remote_id": rid,
            "unparsed_response": r}


# ------------------------------------------------------------------------------------- C05 / C06 broadcast layout
@primitive
def decode_padded_utf8(raw):
    """the text whose UTF-8 encoding, zero padded, is raw (native: decode and strip the padding)"""
    return raw.decode("utf-8").rstrip("\x00")


def gate_spec(m):
    """a Switcher broadcast begins with fe f0 and is exactly 165, 168 or 159 bytes long"""
    return len(m) >= 2 and m[0] == 0xFE and m[1] == 0xF0 and (len(m) == 165 or len(m) == 168 or len(m) == 159)


def dotted(b):
    return str(b[0]) + "." + str(b[1]) + "." + str(b[2]) + "." + str(b[3])


HEXUP = "0123456789ABCDEF"


def hex2up(v):
    return HEXUP[v // 16] + HEXUP[v % 16]


def mac_text(b):
    return hex2up(b[0]) + ":" + hex2up(b[1]) + ":" + hex2up(b[2]) + ":" + hex2up(b[3]) + ":" + hex2up(b[4]) + ":" + hex2up(b[5])


def ref_name(m):
    return decode_padded_utf8(m[42:74])


def model_code(m):
    return hexs(m[74:76])


def ref_base(m, ip_off, dtype, state):
    """fields every family reports.  ip_off: 76 for protocol type 1, 77 for type 2; the MAC follows the IP"""
    return {"device_type": dtype, "device_state": state, "device_id": hexs(m[18:21]), "device_key": hexs(m[40:41]),
            "ip_address": dotted(m[ip_off:ip_off + 4]), "mac_address": mac_text(m[ip_off + 4:ip_off + 10]), "name": ref_name(m)}


def wf_type1(m, timed):
    if len(m) != 165:
        return False
    conds = [m[133] <= 1, le32v(m[155:159]) < 86400]
    if timed:
        conds.append(implies(m[133] == 1, le32v(m[147:151]) < 86400))     # the remaining time matters only while ON
    return all_of(conds)


def ref_power(m, dtype, State, timed):
    """water heaters (timed) and power plugs: state m[133], watts LE16 m[135:137], remaining LE32 m[147:151],
    auto shutdown LE32 m[155:159]; when the device reports OFF, power, current and remaining time are zero"""
    on = m[133] == 1
    d = ref_base(m, 76, dtype, State["ON"] if on else State["OFF"])
    if on:
        watts = le16v(m[135:137])
        d["power_consumption"] = watts
        d["electric_current"] = amps_of(watts)
    else:
        d["power_consumption"] = 0
        d["electric_current"] = 0.0
    if timed:
        d["remaining_time"] = hhmmss(le32v(m[147:151])) if on else "00:00:00"
        d["auto_shutdown"] = hhmmss(le32v(m[155:159]))
    return d


def wf_shutter_bc(m):
    if len(m) != 159:
        return False
    return all_of([m[136] == 0, m[137] <= 1, m[138] <= 1, m[137] + m[138] <= 1])


def ref_shutter_bc(m, dtype, State, Direction):
    """runner: position m[135], direction m[137:139]; a shutter broadcast carries no power state (reported as ON)"""
    d = ref_base(m, 77, dtype, State["ON"])
    d["position"] = m[135]
    if m[137] == 1:
        d["direction"] = Direction["SHUTTER_UP"]
    elif m[138] == 1:
        d["direction"] = Direction["SHUTTER_DOWN"]
    else:
        d["direction"] = Direction["SHUTTER_STOP"]
    return d


def wf_breeze_bc(m):
    if len(m) != 168:
        return False
    conds = [m[137] <= 1, m[138] >= 1, m[138] <= 5, m[140] // 16 <= 3, m[140] % 16 <= 1]
    for i in range(8):
        conds.append(m[143 + i] >= 1)
        conds.append(m[143 + i] < 128)
    return all_of(conds)


def ref_breeze_bc(m, dtype, State, Mode, Fan, Swing):
    """breeze: temperature LE16 m[135:137] in tenths, power m[137], mode m[138], target m[139], fan = high nibble of
    m[140], swing = low nibble, remote id m[143:151] (8 ASCII characters)"""
    d = ref_base(m, 77, dtype, State["ON"] if m[137] == 1 else State["OFF"])
    rid = ""
    for i in range(8):
        rid = rid + chr(m[143 + i])
    d["mode"] = Mode[MODE_BY_CODE[m[138]]]
    d["temperature"] = tenths(le16v(m[135:137]))
    d["target_temperature"] = m[139]
    d["fan_level"] = Fan[FAN_BY_CODE[m[140] // 16]]
    d["swing"] = Swing["ON"] if m[140] % 16 == 1 else Swing["OFF"]
    d["remote_id"] = rid
    return d


# ------------------------------------------------------------------------------------- C01 / C02 / C03 reference frames
# header (40 bytes): fe f0 | total length LE16 | family | operation | session[4] | k[3] 00x9 | timestamp[4] | 00x10 | f0 fe
T1 = b"\x02\x32"
T2 = b"\x03\x05"
ZERO4 = b"\x00\x00\x00\x00"
K_T1 = b"\x34\x00\x01"
K_T2_STATE = b"\x39\x00\x01"
K_BREEZE = b"\x00\x00\x01"
K_LOGIN2 = b"\xff\x03\x01"
K_STOP = b"\x23\x23\x01"
K_SETPOS = b"\x29\x04\x01"


def frame(family, op, session, k3, ts, tail):
    body = family + op + session + k3 + b"\x00" * 9 + ts + b"\x00" * 10 + b"\xf0\xfe" + tail
    unsigned = b"\xfe\xf0" + le16(4 + len(body) + 4) + body
    return unsigned + sig(unsigned)


def frame_ok(w):
    """the statement of C01: magic, own length in bytes 2-3, terminator at 38-39, signature of all preceding bytes last"""
    if len(w) < 44:
        return False
    return (w[0] == 0xFE and w[1] == 0xF0 and w[2] + 256 * w[3] == len(w) and w[38] == 0xF0 and w[39] == 0xFE
            and w[len(w) - 4:] == sig(w[:len(w) - 4]))


@primitive
def timestamp_of(now):
    """the current time as LE32 epoch seconds (rounded to the nearest second)"""
    return le32(int(round(now)))


def login1_frame(ts, key):
    return frame(T1, b"\xa1\x00", ZERO4, K_T1, ts, key + b"\x00" * 37)


def login2_frame(ts, ident):
    return frame(T2, b"\xa6\x00", ZERO4, K_LOGIN2, ts, ident + b"\x00")


def cmd1_frame(op, session, ts, ident, payload):
    return frame(T1, op, session, K_T1, ts, ident + b"\x00" * 36 + payload)


def cmd2_frame(op, k3, session, ts, ident, payload):
    return frame(T2, op, session, k3, ts, ident + b"\x00" * 36 + payload)


def get_state1_frame(session, ts, ident):
    return frame(T1, b"\x01\x03", session, K_T1, ts, ident + b"\x00")


def get_state2_frame(session, ts, ident):
    return frame(T2, b"\x01\x03", session, K_T2_STATE, ts, ident + b"\x00")


def control_frame(session, ts, ident, on, minutes):
    """on/off flag and timer seconds (60 x minutes, zero when no timer)"""
    timer = le32(60 * minutes) if minutes > 0 else ZERO4
    return cmd1_frame(b"\x01\x02", session, ts, ident, b"\x00\x01\x06\x00" + (b"\x01" if on else b"\x00") + b"\x00" + timer)


def auto_shutdown_frame(session, ts, ident, total_seconds):
    return cmd1_frame(b"\x01\x02", session, ts, ident, b"\x00\x04\x04\x00" + le32(60 * (total_seconds // 60)))


def name_frame(session, ts, ident, name):
    raw = utf8(name)
    return cmd1_frame(b"\x02\x02", session, ts, ident, b"\x00" + raw + b"\x00" * (32 - len(raw)))


def get_schedules_frame(session, ts, ident):
    return cmd1_frame(b"\x01\x02", session, ts, ident, b"\x00\x06\x00\x00")


def delete_schedule_frame(session, ts, ident, slot):
    return cmd1_frame(b"\x01\x02", session, ts, ident, b"\x00\x08\x01\x00" + bytes([slot]))


def create_schedule_frame(session, ts, ident, mask, start_epoch, end_epoch):
    """schedule record: ff 01 mask 01 start[4] end[4] (times as LE32 epoch seconds)"""
    return cmd1_frame(b"\x01\x02", session, ts, ident,
                      b"\x00\x03\x0c\x00\xff\x01" + bytes([mask]) + b"\x01" + le32(start_epoch) + le32(end_epoch))


def stop_frame(session, ts, ident):
    return cmd2_frame(b"\x01\x02", K_STOP, session, ts, ident, b"\x37\x02\x02\x00\x00\x00")


def set_position_frame(session, ts, ident, position):
    return cmd2_frame(b"\x01\x02", K_SETPOS, session, ts, ident, b"\x37\x01\x01\x00" + bytes([position]))


def breeze_command_frame(session, ts, ident, command_bytes):
    """IR command: 37 01 | LE16 length of the payload | payload (four zero bytes + ASCII 'Para|HexCode')"""
    return cmd2_frame(b"\x01\x02", K_BREEZE, session, ts, ident, b"\x37\x01" + le16(len(command_bytes)) + command_bytes)


def breeze_update_frame(session, ts, ident, state_code, mode_code, target, fan_code, swing_code):
    """state update without IR code: 37 01 00 03 0b 04 00 | state | mode | target | fan nibble, swing nibble"""
    return cmd2_frame(b"\x01\x0e", K_BREEZE, session, ts, ident,
                      b"\x37\x01\x00\x03\x0b\x04\x00" + bytes([state_code, mode_code, target, fan_code * 16 + swing_code]))


# ------------------------------------------------------------------------------------- C11
@primitive
def today_epoch(h, m):
    """epoch second of the local time h:m on today's local date (libc mktime, isdst unknown)"""
    import time
    lt = time.localtime()
    return int(time.mktime((lt.tm_year, lt.tm_mon, lt.tm_mday, h, m, 0, 0, 0, -1)))


@primitive
def local_hhmm_of(epoch):
    """HH:MM of the local time of an epoch second (libc localtime)"""
    import time
    lt = time.localtime(epoch)
    return hhmm(lt.tm_hour, lt.tm_min)


def time_encode_spec(s):
    """a valid HH:MM -> LE32 epoch second of that local time on today's local date; anything else raises"""
    if not valid_hhmm(s):
        raise Reject("ValueError", "IndexError")
    return hexs(le32(today_epoch(hh_of(s), mm_of(s))))


def time_decode_spec(h):
    """8 hex characters (LE32 epoch second) -> HH:MM of its local time"""
    return local_hhmm_of(le32v(unhex(h)))


# ------------------------------------------------------------------------------------- C15 / C16 IR commands
MODE_CODE = {"AUTO": "aa", "DRY": "ad", "FAN": "aw", "COOL": "ar", "HEAT": "ah"}
FAN_CODE = {"AUTO": "f0", "LOW": "f1", "MEDIUM": "f2", "HIGH": "f3"}


def ir_key_spec(W, toggle, min_temp, max_temp, state_on, mode_name, target, fan_name, swing_on, prev_known, prev_on):
    """the most specific key available for the request, or None where the statement is silent (no candidate exists).
    W: the IR code set (supports `in`); prev_known/prev_on: whether a previous power state was given and what it was"""
    if target > max_temp:
        t = max_temp
    elif target < min_temp:
        t = min_temp
    else:
        t = target
    if not toggle and not state_on:
        return "off"                                   # plain 'off' code for non-toggle remotes
    prefix = "on_" if (toggle and prev_known and prev_on != state_on) else ""
    base = prefix + MODE_CODE[mode_name]
    if mode_name == "COOL" or mode_name == "HEAT":
        base = base + str(t)
    fan = "_" + FAN_CODE[fan_name]
    if swing_on and (base + fan + "_d1") in W:
        return base + fan + "_d1"
    if (base + fan) in W:
        return base + fan
    if base in W:
        return base
    return None


def command_payload(para, hexcode):
    """four zero bytes plus the ASCII text 'Para|HexCode'"""
    return b"\x00\x00\x00\x00" + utf8(para + "|" + hexcode)


def swing_key_spec(swing_on):
    return "FUN_d1" if swing_on else "FUN_d0"


# ------------------------------------------------------------------------------------- C10 schedule records
@primitive
def days_of_mask(mask, days_cls):
    """the set of days whose bit is set in mask (empty for 0)"""
    return set(d for d in days_cls if (mask // DAY_BIT[d.name]) % 2 == 1)


def wf_schedules_reply(r, k):
    """a get-schedules reply holding k whole 16-byte records: 45 header bytes, the records, 4 trailing bytes; every mask is
    0 (non-recurring) or 2..254"""
    if len(r) != 49 + 16 * k:
        return False
    conds = []
    for j in range(k):
        m = r[45 + 16 * j + 2]
        conds.append(implies(m != 0, m >= 2))
        conds.append(m <= 254)
    return all_of(conds)


def record_spec(q, days_cls):
    """16-byte record: id q[0], enabled q[1], day mask q[2] (0 = non-recurring), state q[3], start LE32 q[4:8], end LE32 q[8:12]"""
    start = local_hhmm_of(le32v(q[4:8]))
    end = local_hhmm_of(le32v(q[8:12]))
    return {"schedule_id": str(q[0]), "recurring": q[2] != 0, "days": days_of_mask(q[2], days_cls),
            "start_time": start, "end_time": end, "duration": duration_spec(start, end)}


def get_days_spec(schedule_hex, days_cls):
    """ScheduleParser.get_days on a 32-character hex record"""
    mask = unhex(schedule_hex[4:6])[0]
    if not all_of([implies(mask != 0, mask >= 2), mask <= 254]):
        raise Reject("ValueError")
    return days_of_mask(mask, days_cls)
