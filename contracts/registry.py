"""call-site contracts: qualified name of the real function -> specification function in contracts/spec.py"""
from pyvc.contract import SpecContract


def _msg(ip, args, kwargs, ctx):
    return [ip.getattr(args[0], "message", ctx)]


BRIDGE = {
    "aioswitcher.bridge.DatagramParser.get_name":
        SpecContract("aioswitcher.bridge.DatagramParser.get_name", "ref_name", _msg, proved_by="C05/get_name_len*"),
}
