"""call-site contracts: qualified name of the real function -> specification function in contracts/spec.py"""
from pyvc.contract import SpecContract


def _msg(ip, args, kwargs, ctx):
    return [ip.getattr(args[0], "message", ctx)]


BRIDGE = {
    "aioswitcher.bridge.DatagramParser.get_name":
        SpecContract("aioswitcher.bridge.DatagramParser.get_name", "ref_name", _msg, proved_by="C05/get_name_len*"),
}


def _days_cls(ip):
    return ip.P.real["aioswitcher.schedule"].Days


def _is_hex_even_ge8(ip, sargs, ctx):
    m = sargs[0]
    h = ip.call_function(ip.P.func("spec.is_hex"), [m], {}, ctx)
    L = ip.builtins["len"].fn(ip, [m], {}, ctx)
    import z3
    from pyvc.sym import zb, zi
    return z3.And(zb(ip.truth(h, ctx)), zi(L) % 2 == 0, zi(L) >= 8)


T = "aioswitcher.device.tools."
S = "aioswitcher.schedule.tools."
TOOLS = {
    T + "sign_packet_with_crc_key": SpecContract(T + "sign_packet_with_crc_key", "sign_spec", proved_by="C04/sign*"),
    T + "set_message_length": SpecContract(T + "set_message_length", "set_length_spec", requires=_is_hex_even_ge8,
                                           proved_by="C01/set_message_length"),
    T + "minutes_to_hexadecimal_seconds": SpecContract(T + "minutes_to_hexadecimal_seconds", "minutes_spec", proved_by="C02/enc_minutes"),
    T + "timedelta_to_hexadecimal_seconds": SpecContract(
        T + "timedelta_to_hexadecimal_seconds", "auto_shutdown_spec",
        lambda ip, a, k, ctx: [a[0].secs], proved_by="C02/enc_timedelta"),
    T + "string_to_hexadecimale_device_name": SpecContract(T + "string_to_hexadecimale_device_name", "name_spec", proved_by="C02/enc_name_len*"),
    S + "weekdays_to_hexadecimal": SpecContract(S + "weekdays_to_hexadecimal", "weekdays_encode_spec",
                                                lambda ip, a, k, ctx: [a[0], _days_cls(ip)], proved_by="C12/enc_*"),
    S + "time_to_hexadecimal_timestamp": SpecContract(S + "time_to_hexadecimal_timestamp", "time_encode_spec", proved_by="C11/encode"),
}
