"""C02 - each operation's frame encodes exactly that operation and the caller's arguments (DESIGN.md 4/C02)"""
import z3

from pyvc.sym import Seq, Elems, Gen, array_gen, byte_fact, char_fact, simp, zi
from pyvc.engine import Unit, Obligation, outcome_of, concretise
from pyvc.models import SymTimedelta
from .common import func, sym_int, equiv_unit, deep_equals, opaque_str, sym_outcome
from .apiops import ops, run_op, login_frame, sp, interp_with_contracts, op_witness, QUERIES
from .api_common import API

PROP = "C02"
MIN_OBLIGATIONS = 300
T = "aioswitcher.device.tools."
ASSUMPTIONS = [
    "device id / key are configured as lower-case hex text of 3 / 1 bytes (what the library's own broadcast parser produces)",
    "E6: writer.write(b) appends b to the peer-visible stream; reader.read returns an arbitrary reply of 0..1024 bytes",
    "timedelta arguments have second resolution; float arithmetic of timedelta_to_hexadecimal_seconds is modelled as exact real "
    "arithmetic (validated natively on every second of [-2 d, +3 d])",
    "UTF-8 codec model: len(s) <= len(s.encode()) <= 4 len(s)",
    "the schedule encoders are used through their contracts (C11, C12)",
]
ENUMERATED = ["Command.ON / OFF", "name: UTF-8 byte length 0..40 (character count symbolic)", "create_schedule: all 128 day sets and "
              "sequences of 1..3 symbolic members", "all other arguments are solver variables"]
EXPLANATION = ("every operation of both APIs is executed symbolically (real method, _login, response classes; signer, "
               "set_message_length and encoders through their contracts) on a fresh connected instance with symbolic id, key, clock "
               "and replies; for accepted arguments the byte strings written must equal the reference frames of contracts/spec.py "
               "byte for byte; for arguments outside the statement's domain the call must raise with at most the login frame written")


def interp_for(unit):
    return interp_with_contracts()


def units(tier):
    u = {}
    for name, op in ops().items():
        for v in range(op.variants):
            def fn(ip, ctx, op=op, v=v):
                # the second reply is arbitrary for commands; for the four queries its parsing is the business of C08/C09/C10
                # and the frames are written before it is looked at: the empty reply stands for "any reply" there
                run = run_op(ip, ctx, op, v, ("ge", 12), 0 if op.name in QUERIES else ("ge", 0))
                ctx._run = run
                base = f"{PROP}/{op.name}" + (f"/v{v}" if op.variants > 1 else "")
                acc = op.accepted(ip, ctx, run["info"])
                obs = []
                if ctx.branch(acc if isinstance(acc, bool) else simp(acc)):
                    now = run["now"]
                    obs.append(Obligation(base + "/one_clock_read", ctx, now is not None))
                    if now is None:
                        return obs
                    ts = sp(ip, "timestamp_of", [now], ctx)
                    session = ip.getslice(run["R1"], 8, 12, ctx)
                    want = [login_frame(ip, ctx, op, ts, run["idb"], run["keyb"])] + \
                        op.frames(ip, ctx, session, ts, run["idb"], run["keyb"], run["info"])
                    got = run["writes"]
                    ob = run["outcome"]
                    if op.name not in QUERIES:
                        obs.append(Obligation(base + "/returns_normally", ctx, ob[0] == "ret", note=str(ob[1]) if ob[0] == "exc" else ""))
                    obs.append(Obligation(base + "/frame_count", ctx, len(got) == len(want), note=f"{len(got)} written"))
                    for j, (g, w) in enumerate(zip(got, want)):
                        obs.append(Obligation(base + f"/frame[{j}]_equals_reference", ctx, ip.equals(g, w, ctx)))
                elif op.rejects:
                    ob = run["outcome"]
                    obs.append(Obligation(base + "/rejected_raises", ctx, ob[0] == "exc"))
                    obs.append(Obligation(base + "/rejected_no_command_frame", ctx, len(run["writes"]) <= 1, note=f"{len(run['writes'])} frames written"))
                return obs
            nm = name + (f"_v{v}" if op.variants > 1 else "")
            u[nm] = Unit(nm, PROP, fn, functions=[op.qual(), API + "SwitcherApi._login"], witness=op_witness(PROP, op, v))

    # ---- the call-site contracts this property relies on, proved from the callees' bodies (phase 1)
    from .deps import contract_units
    u.update(contract_units(PROP))

    def canary(ip, ctx):
        op = ops()["control_device"]
        run = run_op(ip, ctx, op, 0, ("ge", 12), ("ge", 0))
        ctx.assume(run["info"]["minutes"] == 5)
        if len(run["writes"]) < 2:
            return []
        w = run["writes"][1]
        return [Obligation(PROP + "/_canary/timer_bytes_zero", ctx, ip.equals(ip.getslice(w, 85, 89, ctx), b"\x00\x00\x00\x00", ctx))]
    u["_canary"] = Unit("_canary", PROP, canary)
    return u


QUICK_WITNESSES = 250


def replay_case(o):
    i = o.get("inputs") or {}
    name = o["name"].split("/")
    if "_canary" in o["name"]:
        return {"prop": PROP, "kind": "canary", "inputs": i}
    if name[1].startswith("dep_"):
        return None
    if "R1" not in i:
        return None
    from .apiops import ops as _ops
    op = _ops().get(name[1])
    if op is None:
        return None
    return {"prop": PROP, "kind": "op_check", "op": op.method, "api": op.kind, "inputs": i}


def search_cases(o, seed):
    return [{"prop": PROP, "kind": "sweep", "inputs": {"seed": seed, "n": 600}}]


def native_cases(tier, seed):
    return [{"prop": PROP, "kind": "sweep", "inputs": {"seed": seed, "n": 600 if tier == "quick" else 20000}},
            {"prop": PROP, "kind": "encoders", "inputs": {"seed": seed, "full": tier != "quick"}},
            {"prop": PROP, "kind": "two_dates", "inputs": {}}]
