"""C10 - listed schedules decode exactly; a created schedule reads back unchanged (DESIGN.md 4/C10)"""
import itertools
import z3

from pyvc.sym import Seq, Elems, Obj, PySet, PyDict, simp, zi, zb, array_gen, char_fact, fresh_name
from pyvc.engine import Unit, Obligation, outcome_of, concretise, make_interp
from pyvc.contract import SpecContract
from pyvc.timemodels import TimeStr
from pyvc import schedmodel, models
from contracts.registry import TOOLS
from .common import func, cls, P, sym_bytes, sym_int, deep_equals, equiv_obligations, sym_outcome
from .api_common import hex_of_bytes

PROP = "C10"
SP = "aioswitcher.schedule.parser."
ST = "aioswitcher.schedule.tools."
MIN_OBLIGATIONS = 2000
ASSUMPTIONS = [
    "builtin set with a user __eq__/__hash__ keeps the first of equal elements (the consistency of SwitcherSchedule.__hash__ with "
    "__eq__ is an obligation of this run)",
    "textwrap.wrap on hex text yields consecutive 32-character chunks",
    "libc localtime uninterpreted (zone independent by construction); L1 for the create -> list round trip",
    "the display text (pretty_next_run) is outside this property (C13): used through an opaque contract",
    "a device lists a created record back with the mask / start / end fields it was given (device behaviour, assumed)",
]
ENUMERATED = ["number of records 0..61 (61 = the most a 1024-byte read can hold): every count is a separate, fully symbolic class (whole-function "
              "obligations incl. the kept-iff-first clause); any larger count: loop-step lemma any_count_step (one iteration for an arbitrary chunk "
              "from an arbitrary set) + the meta-argument of DESIGN.md 9.8", "empty reply"]
BOUNDED_PARTS = ["for more than 61 records the whole-function clause (one schedule per distinct slot id) is the step lemma combined with the set model by "
                 "a meta-argument that is not machine-checked (DESIGN.md 9.8); the native sweep runs listings of 60..400 records as its stand-in"]
EXPLANATION = ("get_schedules executed from the AST on a reply of 49 + 16 k bytes, every byte symbolic; ScheduleParser.get_days, the "
               "timestamp decoder and calc_duration through their contracts (re-proved in this run); for each record the parsed "
               "schedule equals the reference record, and a record is kept iff no earlier record has the same slot id; for any number of records: "
               "one loop iteration from an arbitrary set adds exactly one element, the reference record of that chunk, to the carried set")


def Days():
    return P().real["aioswitcher.schedule"].Days


class DisplayContract:
    qualname = ST + "pretty_next_run"

    def apply(self, ip, f, args, kwargs, ctx):
        ctx.used_contracts.add(self.qualname + " -> opaque text (not part of C10)")
        return Seq('str', [array_gen(fresh_name("display"), ctx.fresh_int("displaylen", 0, 64), (), char_fact)])


def contracts():
    c = {
        SP + "ScheduleParser.get_days": SpecContract(SP + "ScheduleParser.get_days", "get_days_spec",
                                                     lambda ip, a, k, ctx: [ip.getattr(a[0], "schedule", ctx), Days()]),
        ST + "hexadecimale_timestamp_to_localtime": SpecContract(ST + "hexadecimale_timestamp_to_localtime", "time_decode_spec"),
        ST + "calc_duration": SpecContract(ST + "calc_duration", "duration_spec"),
        DisplayContract.qualname: DisplayContract(),
    }
    return c


def interp_for(unit):
    c = contracts()
    if unit.name.startswith("create_then_list"):
        # the real create_schedule is executed: signer / weekday encoder through their contracts, the clock encoder from its body
        for k, v in TOOLS.items():
            if not k.endswith("time_to_hexadecimal_timestamp"):
                c[k] = v
    ip = make_interp(contracts=c)
    schedmodel.install(ip)
    from .api_common import stream_env
    stream_env(ip)
    return ip


def sp(ip, name, args, ctx):
    return ip.call_function(func("spec." + name), list(args), {}, ctx)


def check_records(ip, ctx, base, result, r, k):
    obs = []
    ok_shape = isinstance(result, PySet) and (k == 0 or getattr(result, "deferred", None) is not None)
    items = result.deferred.items if ok_shape and k > 0 else []
    obs.append(Obligation(base + "/one_element_per_record", ctx, ok_shape and len(items) == k and (k > 0 or not result.s)))
    if not ok_shape or len(items) != k:
        return obs
    ids = [ip.getitem(r, 45 + 16 * j, ctx) for j in range(k)]
    for j, (obj, kept) in enumerate(items):
        q = ip.getslice(r, 45 + 16 * j, 61 + 16 * j, ctx)
        want = sp(ip, "record_spec", [q, Days()], ctx).d
        for field, v in want.items():
            obs.append(Obligation(base + f"/record[{j}]/{field}", ctx, deep_equals(ip, obj.attrs.get(field), v, ctx)))
        first = ip.conj([simp(zi(ids[i]) != zi(ids[j])) for i in range(j)])
        obs.append(Obligation(base + f"/record[{j}]/kept_iff_first_with_its_id", ctx, ip.equals(kept, first, ctx)))
    return obs


def units(tier):
    u = {}
    for k in range(0, 62):
        def fn(ip, ctx, k=k):
            r = sym_bytes(ctx, "r", 49 + 16 * k)
            wf = sp(ip, "wf_schedules_reply", [r, k], ctx)
            ctx.assume(ip.truth(wf, ctx))
            ob = outcome_of(lambda: ip.call_function(func(SP + "get_schedules"), [r], {}, ctx))
            base = f"{PROP}/get_schedules/records_{k}"
            obs = [Obligation(base + "/returns", ctx, ob[0] == "ret", note=str(ob[1]) if ob[0] == "exc" else "")]
            if ob[0] == "ret":
                obs += check_records(ip, ctx, base, ob[1], r, k)
            return obs
        u[f"records_{k}"] = Unit(f"records_{k}", PROP, fn, functions=[SP + "get_schedules", SP + "SwitcherSchedule.__post_init__",
                                                                     SP + "ScheduleParser.get_id", SP + "ScheduleParser.is_recurring",
                                                                     SP + "ScheduleParser.get_start_time", SP + "ScheduleParser.get_end_time"])

    def empty(ip, ctx):
        ob = outcome_of(lambda: ip.call_function(func(SP + "get_schedules"), [b""], {}, ctx))
        ok = ob[0] == "ret" and isinstance(ob[1], PySet) and not ob[1].s and getattr(ob[1], "deferred", None) is None
        c = cls("aioswitcher.api.messages.SwitcherGetSchedulesResponse")
        ob2 = outcome_of(lambda: ip.instantiate(c, [b""], {}, ctx))
        ok2 = ob2[0] == "ret" and isinstance(ob2[1].attrs.get("schedules"), PySet) and not ob2[1].attrs["schedules"].s
        return [Obligation(f"{PROP}/get_schedules/empty_reply_no_schedules", ctx, bool(ok)),
                Obligation(f"{PROP}/SwitcherGetSchedulesResponse/empty_reply_no_schedules", ctx, bool(ok2))]
    u["empty_reply"] = Unit("empty_reply", PROP, empty, functions=[SP + "get_schedules"])

    def response_class(ip, ctx):
        k = 2
        r = sym_bytes(ctx, "r", 49 + 16 * k)
        ctx.assume(ip.truth(sp(ip, "wf_schedules_reply", [r, k], ctx), ctx))
        c = cls("aioswitcher.api.messages.SwitcherGetSchedulesResponse")
        ob = outcome_of(lambda: ip.instantiate(c, [r], {}, ctx))
        base = f"{PROP}/SwitcherGetSchedulesResponse/records_2"
        obs = [Obligation(base + "/returns", ctx, ob[0] == "ret")]
        if ob[0] == "ret":
            obs += check_records(ip, ctx, base, ob[1].attrs.get("schedules"), r, k)
        return obs
    u["response_class"] = Unit("response_class", PROP, response_class, functions=["aioswitcher.api.messages.SwitcherGetSchedulesResponse.__post_init__"])

    def eq_hash(ip, ctx):
        c = cls(SP + "SwitcherSchedule")
        a = Obj(c, {"schedule_id": Seq('str', [array_gen("ida", sym_int(ctx, "la", 0, 3), (), char_fact)]), "recurring": False,
                    "days": PySet(), "start_time": "00:00", "end_time": "00:00", "duration": "x", "display": "y"})
        b = Obj(c, {"schedule_id": Seq('str', [array_gen("idb", sym_int(ctx, "lb", 0, 3), (), char_fact)]), "recurring": True,
                    "days": PySet(), "start_time": "01:00", "end_time": "02:00", "duration": "z", "display": "w"})
        e = ip.truth(ip.equals(a, b, ctx), ctx)
        same_id = ip.truth(ip.equals(a.attrs["schedule_id"], b.attrs["schedule_id"], ctx), ctx)
        ha = ip.call_function(c.find_method("__hash__"), [a], {}, ctx)
        hb = ip.call_function(c.find_method("__hash__"), [b], {}, ctx)
        hashed_same = isinstance(ha, models.HashOf) and isinstance(hb, models.HashOf) and ip.truth(ip.equals(ha.v, hb.v, ctx), ctx)
        return [Obligation(f"{PROP}/SwitcherSchedule/eq_iff_same_slot_id", ctx, simp(zb(e) == zb(same_id))),
                Obligation(f"{PROP}/SwitcherSchedule/hash_consistent_with_eq", ctx,
                           False if hashed_same is False else simp(z3.Implies(zb(e), zb(hashed_same))))]
    u["eq_hash"] = Unit("eq_hash", PROP, eq_hash, functions=[SP + "SwitcherSchedule.__eq__", SP + "SwitcherSchedule.__hash__"])

    # ---- any number of records: get_schedules is a fold of set.add over the 32-character chunks; step lemma for an ARBITRARY chunk
    #      from an ARBITRARY set (DESIGN.md 9.8); base and the code around the loop: records_0 / empty_reply / records_k above
    def any_count_step(ip, ctx):
        from pyvc import capmodel
        from pyvc.interp import Builtin
        ip.loop_hook = capmodel.loop_hook
        q = sym_bytes(ctx, "q", 16)
        m = ip.getitem(q, 2, ctx)
        ctx.assume(z3.And(z3.Implies(zi(m) != 0, zi(m) >= 2), zi(m) <= 254))
        chunk = hex_of_bytes(q)
        log = schedmodel.AddLog()
        seen = []

        def wrap_any(ip_, a, k, c):
            seen.append((a, k))
            c.used_models.add("textwrap.wrap(hex text, 32): the loop runs once per 32-character chunk (any number of them)")
            return capmodel.OneStep(chunk, {"ret_set": log})
        ip.ext_models["textwrap.wrap"] = Builtin("wrap", wrap_any)
        r = sym_bytes(ctx, "r", 49 + 16)
        base = f"{PROP}/get_schedules/any_count/step"
        try:
            ip.call_function(func(SP + "get_schedules"), [r], {}, ctx)
            return [Obligation(base + "/loop_reached", ctx, False)]
        except capmodel.LoopStepDone as e:
            env = e.env
        if ctx.ghost.module_writes:
            # state that outlives the call (a module-level cache): one iteration from the initial module state says nothing about
            # later iterations or calls -> the lemma does not apply; undecided here, decided by the native stand-in
            from pyvc.interp import Unsupported
            raise Unsupported("the loop body writes module-level state: " + str(ctx.ghost.module_writes[:1]))
        obs = [Obligation(base + "/chunks_are_32_characters_of_the_reply_text", ctx,
                          len(seen) == 1 and len(seen[0][0]) >= 2 and seen[0][0][1] == 32 and not seen[0][1]
                          and ip.equals(seen[0][0][0], hex_of_bytes(ip.getslice(r, 45, 61, ctx)), ctx)),
               Obligation(base + "/the_set_is_the_one_carried_through_the_loop", ctx, env.get("ret_set") is log),
               Obligation(base + "/exactly_one_element_added_per_chunk", ctx, len(log.adds) == 1 and isinstance(log.adds[0], Obj))]
        if len(log.adds) == 1 and isinstance(log.adds[0], Obj):
            want = sp(ip, "record_spec", [q, Days()], ctx).d
            for field, v in want.items():
                obs.append(Obligation(base + f"/element/{field}", ctx, deep_equals(ip, log.adds[0].attrs.get(field), v, ctx)))
        return obs
    u["any_count_step"] = Unit("any_count_step", PROP, any_count_step,
                               functions=[SP + "get_schedules", SP + "SwitcherSchedule.__post_init__", SP + "ScheduleParser.get_id",
                                          SP + "ScheduleParser.is_recurring", SP + "ScheduleParser.get_start_time",
                                          SP + "ScheduleParser.get_end_time"])

    # ---- contracts proved from the callees' bodies
    def dep_days(ip, ctx):
        q = sym_bytes(ctx, "q", 16)
        h = ip.call_method(hex_of_bytes(q), "encode", [], {}, ctx)
        parser = ip.instantiate(cls(SP + "ScheduleParser"), [h], {}, ctx)
        ip.no_contract_for = {SP + "ScheduleParser.get_days"}
        ob = outcome_of(lambda: ip.call_function(func(SP + "ScheduleParser.get_days"), [parser], {}, ctx))
        os_ = outcome_of(lambda: sp(ip, "get_days_spec", [h, Days()], ctx))
        return equiv_obligations(ip, ctx, f"{PROP}/dep_get_days", ob, os_, prop_level=False)
    u["dep_get_days"] = Unit("dep_get_days", PROP, dep_days, functions=[SP + "ScheduleParser.get_days", ST + "bit_summary_to_days"],
                             proves=SP + "ScheduleParser.get_days")

    def dep_dec(ip, ctx):
        b = sym_bytes(ctx, "stamp", 4)
        h = ip.call_method(hex_of_bytes(b), "encode", [], {}, ctx)
        ip.no_contract_for = {ST + "hexadecimale_timestamp_to_localtime"}
        ob = outcome_of(lambda: ip.call_function(func(ST + "hexadecimale_timestamp_to_localtime"), [h], {}, ctx))
        os_ = outcome_of(lambda: sp(ip, "time_decode_spec", [h], ctx))
        return equiv_obligations(ip, ctx, f"{PROP}/dep_time_decode", ob, os_, prop_level=False)
    u["dep_time_decode"] = Unit("dep_time_decode", PROP, dep_dec, functions=[ST + "hexadecimale_timestamp_to_localtime"],
                                proves=ST + "hexadecimale_timestamp_to_localtime")

    def dep_dur(ip, ctx):
        a, b = TimeStr("start", ctx), TimeStr("end", ctx)
        ctx.assume(a.valid())
        ctx.assume(b.valid())
        ip.no_contract_for = {ST + "calc_duration"}
        ob = outcome_of(lambda: ip.call_function(func(ST + "calc_duration"), [a, b], {}, ctx))
        os_ = outcome_of(lambda: sp(ip, "duration_spec", [a, b], ctx))
        return equiv_obligations(ip, ctx, f"{PROP}/dep_calc_duration", ob, os_, prop_level=False)
    u["dep_calc_duration"] = Unit("dep_calc_duration", PROP, dep_dur, functions=[ST + "calc_duration"], proves=ST + "calc_duration")

    # ---- created record read back: days_of(mask_of(D)) == D and HH:MM(localtime(mktime(today, h, m))) == h:m (L1)
    def readback(ip, ctx, chunk=0, nchunks=1):
        from .apiops import ops, run_op
        D = Days()
        members = list(D)
        op = ops()["create_schedule"]
        variants = list(range(128))[chunk::nchunks]
        v = variants[ctx.fork(len(variants))]
        run = run_op(ip, ctx, op, v, ("ge", 12), ("ge", 0))
        info = run["info"]
        start, end = info["start"], info["end"]
        ctx.assume(start.valid())
        ctx.assume(end.valid())
        if run["outcome"][0] != "ret" or len(run["writes"]) != 2:
            return [Obligation(f"{PROP}/create_then_list/v{v}/create_schedule_sends_the_record", ctx, False,
                               note=str(run["outcome"][1]) if run["outcome"][0] == "exc" else f"{len(run['writes'])} frames")]
        frame = run["writes"][1]
        combo = tuple(sorted(info["days"].s, key=members.index)) if hasattr(info["days"], "s") else ()
        # L1 (assumed): the two local times exist today, so localtime(mktime(today, h, m)) gives them back
        se = sp(ip, "today_epoch", [start.hv, start.mv], ctx)
        ee = sp(ip, "today_epoch", [end.hv, end.mv], ctx)
        for t, x in ((se, start), (ee, end)):
            ctx.assume(z3.And(models.LT_HOUR(t) == x.hv, models.LT_MIN(t) == x.mv))
        slot = sym_bytes(ctx, "slot", 1, register=False)
        # the device lists the record back: slot id, enabled, the mask byte, state, the start and end fields, 4 more bytes
        rec = ip.add(ip.add(ip.add(slot, b"\x01", ctx), ip.getslice(frame, 85, 86, ctx), ctx), b"\x01", ctx)
        rec = ip.add(ip.add(rec, ip.getslice(frame, 87, 95, ctx), ctx), b"\x00\x00\x00\x00", ctx)
        r = ip.add(ip.add(bytes(45), rec, ctx), bytes(4), ctx)
        ob = outcome_of(lambda: ip.call_function(func(SP + "get_schedules"), [r], {}, ctx))
        tag = "".join(str(members.index(x)) for x in combo) or "none"
        base = f"{PROP}/create_then_list/days_{tag}"
        obs = [Obligation(base + "/parses", ctx, ob[0] == "ret" and getattr(ob[1], "deferred", None) is not None and len(ob[1].deferred.items) == 1)]
        if obs[0].goal:
            o = ob[1].deferred.items[0][0]
            obs.append(Obligation(base + "/same_days", ctx, ip.truth(ip.equals(o.attrs["days"], PySet(combo), ctx), ctx)))
            obs.append(Obligation(base + "/same_start", ctx, ip.equals(o.attrs["start_time"], sp(ip, "hhmm", [start.hv, start.mv], ctx), ctx)))
            obs.append(Obligation(base + "/same_end", ctx, ip.equals(o.attrs["end_time"], sp(ip, "hhmm", [end.hv, end.mv], ctx), ctx)))
        return obs
    for ch in range(8):
        u[f"create_then_list_{ch}"] = Unit(f"create_then_list_{ch}", PROP, readback, params={"chunk": ch, "nchunks": 8},
                                           functions=[SP + "get_schedules", "aioswitcher.api.SwitcherType1Api.create_schedule",
                                                      ST + "time_to_hexadecimal_timestamp"])

    def canary(ip, ctx):
        r = sym_bytes(ctx, "r", 49 + 16)
        ctx.assume(ip.truth(sp(ip, "wf_schedules_reply", [r, 1], ctx), ctx))
        ob = outcome_of(lambda: ip.call_function(func(SP + "get_schedules"), [r], {}, ctx))
        o = ob[1].deferred.items[0][0]
        return [Obligation(PROP + "/_canary/never_recurring", ctx, ip.equals(o.attrs["recurring"], False, ctx))]
    u["_canary"] = Unit("_canary", PROP, canary)
    return u


def replay_case(o):
    i = o.get("inputs") or {}
    if "_canary" in o["name"]:
        return {"prop": PROP, "kind": "canary", "inputs": i}
    if "r" in i:
        return {"prop": PROP, "kind": "check", "inputs": i}
    return None


def search_cases(o, seed):
    if "create_then_list" in o["name"]:
        return [{"prop": PROP, "kind": "create_readback", "inputs": {"seed": seed, "n": 300, "dst_days": True}}]
    return [{"prop": PROP, "kind": "sweep", "inputs": {"seed": seed, "n": 400}}]


def native_cases(tier, seed):
    return [{"prop": PROP, "kind": "sweep", "inputs": {"seed": seed, "n": 400 if tier == "quick" else 20000}},
            {"prop": PROP, "kind": "create_readback", "inputs": {"seed": seed, "n": 200 if tier == "quick" else 5000}},
            {"prop": PROP, "kind": "create_readback", "inputs": {"seed": seed, "n": 120 if tier == "quick" else 3000, "dst_days": True}},
            {"prop": PROP, "kind": "shipped", "inputs": {}},
            {"prop": PROP, "kind": "zones_same_reply", "inputs": {"seed": seed}}]
