"""C18 - the TCP client is connected exactly between connect and disconnect (DESIGN.md 4/C18)"""
import itertools
import z3

from pyvc.sym import Obj, ExcVal
from pyvc.engine import Unit, Obligation, outcome_of
from pyvc.interp import EnvObj, PyExc
from .common import func, cls, sym_bytes_atleast
from .lifecycle import lifecycle_interp
from .api_common import API

PROP = "C18"
MIN_OBLIGATIONS = 100
ASSUMPTIONS = [
    "E5: asyncio.open_connection raises OSError without side effects or returns a fresh open (reader, writer)",
    "E6: writer.close() is idempotent and afterwards the peer observes end-of-stream; await writer.wait_closed() returns normally, except "
    "(E6') on a connection the device reset - possible after an operation has failed on it - where it raises ConnectionResetError / "
    "BrokenPipeError on every call (observed natively on loopback: defect F9)",
    "operations never assign _connected / _writer / _reader: proved for every operation and path by C03's frame condition; re-checked "
    "here for one returning and one raising operation inside the histories",
    "connect on an already connected client is not claimed either way (one socket per connect/disconnect pair)",
]
ENUMERATED = ["pre-states: never connected / connected / disconnected after a connect; methods: connect (ok / refused), disconnect, "
              "__aenter__, __aexit__ (with and without exception triple); both API classes",
              "all histories of length <= 5 over {connect ok, connect refused, operation ok, operation raising, disconnect, enter, "
              "leave, leave through exception} on one instance (bounded supplement to the invariant argument)"]
EXPLANATION = ("representation invariant RI: connected => a writer exists and is open.  Every public lifecycle method is executed from the "
               "AST from each abstract RI state and must re-establish RI with its own postcondition (connect: connected and fresh open "
               "writer, or OSError and unchanged state; disconnect/__aexit__: not connected and the writer closed and awaited); any "
               "history is then an alternation in which 'connected' is true exactly after a successful connect and before the next "
               "disconnect (induction over RI preservation; also enumerated up to length 5)")
ALPHABET = ["connect_ok", "connect_refused", "op_ok", "op_raise", "disconnect", "enter", "leave", "leave_exc", "leave_oserror"]
EXC_TRIPLES = {"none": None, "ValueError": "ValueError", "ConnectionRefusedError": "ConnectionRefusedError", "TimeoutError": "TimeoutError",
               "CancelledError": "asyncio.CancelledError"}


def triple(kind):
    """(exc_type, exc_value, traceback) as __aexit__ receives them"""
    from pyvc.interp import ExcClass
    name = EXC_TRIPLES[kind]
    if name is None:
        return [None, None, None]
    return [ExcClass(name), ExcVal(name, ("body",)), None]


def interp_for(unit):
    return lifecycle_interp()


def new_api(ip, ctx, kind):
    c = cls(API + ("SwitcherType1Api" if kind == 1 else "SwitcherType2Api"))
    return ip.instantiate(c, ["192.0.2.1", "ab1234", "00"], {}, ctx)


def state_of(api):
    w = api.attrs.get("_writer")
    return {"connected": api.attrs.get("_connected"), "writer": w, "writer_open": (w is not None and not w.state.get("closed"))}


def step(ip, ctx, api, action, script):
    """one action of the history alphabet; returns (outcome, expected_connected_after or None when the action is not enabled)"""
    before = state_of(api)
    cls_ = api.cls
    if action in ("connect_ok", "connect_refused", "enter"):
        want_fail = action == "connect_refused"
        ctx.reply_script = script
        name = "__aenter__" if action == "enter" else "connect"
        # choose the environment outcome: open_connection forks; steer it
        ob = outcome_of(lambda: ip.call_function(cls_.find_method(name), [api], {}, ctx))
        return ob
    if action == "disconnect":
        return outcome_of(lambda: ip.call_function(cls_.find_method("disconnect"), [api], {}, ctx))
    if action in ("leave", "leave_exc"):
        args = [None, None, None] if action == "leave" else [PyExcClass(), ExcVal("ValueError", ("body",)), None]
        return outcome_of(lambda: ip.call_function(cls_.find_method("__aexit__"), [api] + args, {}, ctx))
    raise ValueError(action)


class PyExcClass:
    pass


def units(tier):
    u = {}
    for kind in (1, 2):
        # ---- per-method contracts from each abstract RI state
        def methods(ip, ctx, kind=kind):
            obs = []
            pre = ["fresh", "connected", "disconnected"][ctx.fork(3)]
            meths = ["connect", "disconnect", "__aenter__"] + ["__aexit__" + k for k in EXC_TRIPLES]
            meth = meths[ctx.fork(len(meths))]
            api = new_api(ip, ctx, kind)
            base0 = f"{PROP}/type{kind}/from_{pre}/{meth}"
            obs.append(Obligation(f"{PROP}/type{kind}/__init__/not_connected", ctx, api.attrs.get("_connected") is False and "_writer" not in api.attrs))
            old_writer = None
            if pre in ("connected", "disconnected"):
                old_writer = EnvObj("writer")
                api.attrs["_writer"] = old_writer
                api.attrs["_reader"] = EnvObj("reader", replies=[])
                api.attrs["_connected"] = pre == "connected"
                if pre == "disconnected":
                    old_writer.state["closed"] = True
                # the device may have reset this connection (an earlier operation failed on it): environment E6'
                if ctx.fork(2) == 1:
                    old_writer.state["maybe_lost"] = True
                    base0 += "/connection_reset_by_device"
            if pre == "connected" and meth in ("connect", "__aenter__"):
                return obs          # connect requires "not connected": not claimed
            ctx.ghost.events.clear()
            if meth in ("connect", "__aenter__"):
                ob = outcome_of(lambda: ip.call_function(api.cls.find_method(meth), [api], {}, ctx))
                opened = [e for e in ctx.ghost.events if e[0] == "open_connection"]
                obs.append(Obligation(base0 + "/opens_one_connection_to_the_configured_endpoint", ctx,
                                      len(opened) == 1 and opened[0][1].get("host") == "192.0.2.1" and
                                      opened[0][1].get("port") == (9957 if kind == 1 else 10000)))
                if ob[0] == "exc":
                    obs.append(Obligation(base0 + "/refused/raises_OSError", ctx, ob[1].cls == "OSError"))
                    obs.append(Obligation(base0 + "/refused/stays_disconnected", ctx, api.attrs.get("_connected") is False))
                    obs.append(Obligation(base0 + "/refused/state_unchanged", ctx, api.attrs.get("_writer") is old_writer))
                else:
                    w = api.attrs.get("_writer")
                    obs.append(Obligation(base0 + "/ok/connected", ctx, api.attrs.get("_connected") is True))
                    obs.append(Obligation(base0 + "/ok/fresh_open_writer", ctx, isinstance(w, EnvObj) and w is not old_writer and not w.state.get("closed")))
                    if meth == "__aenter__":
                        obs.append(Obligation(base0 + "/ok/returns_self", ctx, ob[1] is api))
            else:
                if meth == "disconnect":
                    ob = outcome_of(lambda: ip.call_function(api.cls.find_method("disconnect"), [api], {}, ctx))
                else:
                    args = triple(meth[len("__aexit__"):])
                    ob = outcome_of(lambda: ip.call_function(api.cls.find_method("__aexit__"), [api] + args, {}, ctx))
                obs.append(Obligation(base0 + "/returns_None", ctx, ob[0] == "ret" and ob[1] is None, note=str(ob[1]) if ob[0] == "exc" else ""))
                obs.append(Obligation(base0 + "/not_connected_afterwards", ctx, api.attrs.get("_connected") is False))
                if old_writer is not None:
                    ev = [e[0] for e in ctx.ghost.events if e[0] in ("close", "wait_closed") and e[1] is old_writer]
                    obs.append(Obligation(base0 + "/writer_closed_and_awaited", ctx, old_writer.state.get("closed") is True and
                                          (pre == "disconnected" or ev == ["close", "wait_closed"]) and (ev in (["close", "wait_closed"], []) or pre == "disconnected")))
                    obs.append(Obligation(base0 + "/writer_closed", ctx, old_writer.state.get("closed") is True))
            return obs
        u[f"methods_type{kind}"] = Unit(f"methods_type{kind}", PROP, methods, functions=[API + "SwitcherApi." + m for m in
                                        ("__init__", "connect", "disconnect", "__aenter__", "__aexit__", "connected")])

        # ---- bounded supplement: every history of length <= N
        N = 4 if tier == "quick" else 5
        for first in range(len(ALPHABET)):
            def histories(ip, ctx, kind=kind, first=first, N=N):
                length = 1 + ctx.fork(N)
                seq = [ALPHABET[first]] + [ALPHABET[ctx.fork(len(ALPHABET))] for _ in range(length - 1)]
                api = new_api(ip, ctx, kind)
                ctx.now_range = (0, 2 ** 32 - 2)
                model_conn = False        # reference: true exactly between a successful connect and the next disconnect
                flag_unknown = False
                obs = []
                hist = []
                for step_no, a in enumerate(seq):
                    hist.append(a)
                    base = f"{PROP}/type{kind}/history/" + ">".join(hist)
                    if a == "connect_refused" and model_conn:
                        # a refused RE-connect on a connected client: what the flag should say afterwards is not claimed, but the
                        # socket of the live session must still be closed by the next disconnect
                        ob = outcome_of(lambda: ip.call_function(api.cls.find_method("connect"), [api], {}, ctx))
                        if ob[0] == "ret":
                            raise_inf()
                        obs.append(Obligation(base + "/refused_reconnect_raises_OSError", ctx, ob[1].cls == "OSError"))
                        flag_unknown = True
                        continue
                    if a in ("connect_ok", "connect_refused", "enter"):
                        if model_conn:
                            return obs       # a second successful connect on a connected client: not claimed; stop this history
                        ctx.reply_script = []
                        nsock = len(getattr(ctx, "sockets", []))
                        ob = outcome_of(lambda: ip.call_function(api.cls.find_method("__aenter__" if a == "enter" else "connect"), [api], {}, ctx))
                        succeeded = ob[0] == "ret"
                        if (a == "connect_refused") == succeeded:
                            raise_inf()      # the environment outcome explored on this path is the other one
                        model_conn = succeeded
                    elif a in ("op_ok", "op_raise"):
                        if not model_conn:
                            continue          # operations need a connection: not part of this property's alphabet when disconnected
                        rd = api.attrs["_reader"]
                        done = ctx.ghost.reads
                        if a == "op_ok":
                            rd.state["replies"] = [b""] * done + [sym_bytes_atleast(ctx, f"L{step_no}", 12), sym_bytes_atleast(ctx, f"S{step_no}", 1)]
                            m = "control_device" if kind == 1 else "stop"
                            args = [ip.real_enum(api.cls.module.classes["Command"]).ON] if kind == 1 else []
                        else:
                            rd.state["replies"] = [b""] * done + [b"", b""]
                            m = "get_state" if kind == 1 else "get_shutter_state"
                            args = []
                        ob = outcome_of(lambda: ip.call_function(api.cls.find_method(m), [api] + args, {}, ctx))
                        obs.append(Obligation(base + "/operation_outcome", ctx, (ob[0] == "ret") == (a == "op_ok")))
                        if a == "op_raise" and isinstance(api.attrs.get("_writer"), EnvObj):
                            api.attrs["_writer"].state["maybe_lost"] = True     # the operation may have failed because the device reset the connection
                    elif a == "disconnect":
                        ob = outcome_of(lambda: ip.call_function(api.cls.find_method("disconnect"), [api], {}, ctx))
                        obs.append(Obligation(base + "/disconnect_returns", ctx, ob[0] == "ret"))
                        model_conn = False
                    else:
                        args = triple({"leave": "none", "leave_exc": "ValueError", "leave_oserror": "ConnectionRefusedError"}[a])
                        ob = outcome_of(lambda: ip.call_function(api.cls.find_method("__aexit__"), [api] + args, {}, ctx))
                        obs.append(Obligation(base + "/leave_returns_None", ctx, ob[0] == "ret" and ob[1] is None))
                        model_conn = False
                    if a in ("disconnect", "leave", "leave_exc", "leave_oserror"):
                        flag_unknown = False
                    conn = ip.getattr(api, "connected", ctx)
                    if not flag_unknown:
                        obs.append(Obligation(base + "/connected_flag", ctx, conn is model_conn))
                    socks = getattr(ctx, "sockets", [])
                    open_socks = [w for w in socks if not w.state.get("closed")]
                    obs.append(Obligation(base + "/open_sockets", ctx, len(open_socks) == (1 if model_conn else 0) and
                                          (not model_conn or open_socks[0] is api.attrs.get("_writer"))))
                return obs
            u[f"histories_type{kind}_{first}"] = Unit(f"histories_type{kind}_{first}", PROP, histories, params={"may_be_empty": True}, max_paths=200000)

    def canary(ip, ctx):
        api = new_api(ip, ctx, 1)
        ob = outcome_of(lambda: ip.call_function(api.cls.find_method("connect"), [api], {}, ctx))
        return [Obligation(PROP + "/_canary/connect_never_connects", ctx, api.attrs.get("_connected") is False)]
    u["_canary"] = Unit("_canary", PROP, canary)
    return u


def raise_inf():
    from pyvc.interp import Infeasible
    raise Infeasible()


def replay_case(o):
    if "_canary" in o["name"]:
        return {"prop": PROP, "kind": "canary", "inputs": {}}
    if "/history/" in o["name"]:
        return {"prop": PROP, "kind": "history", "inputs": {"api": 1 if "type1" in o["name"] else 2, "seq": o["name"].split("/history/")[1].split("/")[0].split(">")}}
    return None


def search_cases(o, seed):
    return [{"prop": PROP, "kind": "loopback", "inputs": {"seed": seed, "n": 40}}]


def native_cases(tier, seed):
    return [{"prop": PROP, "kind": "loopback", "inputs": {"seed": seed, "n": 40 if tier == "quick" else 1000}}]
