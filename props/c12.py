"""C12 - weekday sets and their one-byte mask are a bijection (DESIGN.md 4/C12)"""
import itertools
import z3

from pyvc.sym import PySet, PyList, SymEnum
from pyvc.engine import Unit, Obligation, outcome_of, equiv_obligations, concretise
from pyvc.models import SymEnumList
from .common import equiv_unit, func, sym_outcome, sym_int, sym_enum, P

PROP = "C12"
ENC = "aioswitcher.schedule.tools.weekdays_to_hexadecimal"
DEC = "aioswitcher.schedule.tools.bit_summary_to_days"
MIN_OBLIGATIONS = 300
ASSUMPTIONS = ["builtin set(): cardinality model (number of distinct members; at most the number of Enum members)",
               "sum()/map() over a concrete-shape collection"]
ENUMERATED = ["all 7 single days", "all 128 sets (incl. empty) as set input", "sequences of every length 0..8 with symbolic members; "
              "length >= 9 symbolic (pigeonhole through the set-cardinality model)", "all integer masks (symbolic Int)",
              "round trip on all 127 non-empty sets"]
EXPLANATION = ("encoder and decoder are executed symbolically from the AST against contracts/spec.py:weekdays_encode_spec / "
               "weekdays_decode_spec; the Days members come from the executed schedule/__init__.py of the current tree")


def Days():
    return P().real["aioswitcher.schedule"].Days


def units(tier):
    u = {}
    D = Days()
    members = list(D)

    def enc_unit(name, mk, kind="encode"):
        def fn(ip, ctx):
            days = mk(ctx)
            ctx.inputs["days"] = days
            f = func(ENC)
            ob = outcome_of(lambda: ip.call_function(f, [days], {}, ctx))
            ctx._code_outcome = ob
            os_ = outcome_of(lambda: ip.call_function(func("spec.weekdays_encode_spec"), [days, D], {}, ctx))
            return equiv_obligations(ip, ctx, f"{PROP}/{name}", ob, os_)

        def witness(ctx, model):
            d = ctx.inputs["days"]
            if isinstance(d, SymEnumList):
                return None
            return {"case": {"prop": PROP, "kind": kind, "inputs": {"days": concretise(d, model)}},
                    "expect": sym_outcome(ctx._code_outcome, model, ctx)}
        return Unit(name, PROP, fn, functions=[ENC], witness=witness)
    for m in members:
        u[f"enc_single_{m.name}"] = enc_unit(f"enc_single_{m.name}", lambda ctx, m=m: m)
    # all 128 sets, grouped by size to keep the unit count small
    for size in range(0, 8):
        for combo in itertools.combinations(members, size):
            nm = "enc_set_" + ("".join(str(members.index(x)) for x in combo) or "empty")
            u[nm] = enc_unit(nm, lambda ctx, combo=combo: PySet(combo))
    for n in range(0, 9):
        for form in ("list", "tuple"):
            def mk(ctx, n=n, form=form):
                xs = [sym_enum(ctx, f"d{i}", D) for i in range(n)]
                return PyList(xs) if form == "list" else tuple(xs)
            u[f"enc_{form}_len{n}"] = enc_unit(f"enc_{form}_len{n}", mk)

    def mk_long(ctx):
        n = z3.Int("n")
        ctx.fact(n >= 9)
        return SymEnumList(D, n)
    u["enc_seq_len_ge9"] = enc_unit("enc_seq_len_ge9", mk_long)

    def dec_unit(ip, ctx):
        s = sym_int(ctx, "mask")
        f = func(DEC)
        ob = outcome_of(lambda: ip.call_function(f, [s], {}, ctx))
        ctx._code_outcome = ob
        os_ = outcome_of(lambda: ip.call_function(func("spec.weekdays_decode_spec"), [s, D], {}, ctx))
        return equiv_obligations(ip, ctx, f"{PROP}/decode", ob, os_)

    def dec_wit(ctx, model):
        return {"case": {"prop": PROP, "kind": "decode", "inputs": {"mask": concretise(ctx.inputs["mask"], model)}},
                "expect": sym_outcome(ctx._code_outcome, model, ctx)}
    u["decode"] = Unit("decode", PROP, dec_unit, functions=[DEC], witness=dec_wit)

    def roundtrip(ip, ctx):
        obs = []
        for size in range(1, 8):
            for combo in itertools.combinations(members, size):
                S = PySet(combo)
                h = ip.call_function(func(ENC), [S], {}, ctx)
                v = ip.builtins["int"].fn(ip, [h, 16], {}, ctx)
                back = ip.call_function(func(DEC), [v], {}, ctx)
                ok = isinstance(back, PySet) and back.s == set(combo)
                # also: two hex digits, bit 0 clear
                two = isinstance(h, str) and len(h) == 2 and int(h, 16) % 2 == 0
                obs.append(Obligation(f"{PROP}/roundtrip/" + "".join(str(members.index(x)) for x in combo), ctx, bool(ok and two)))
        return obs
    u["roundtrip"] = Unit("roundtrip", PROP, roundtrip, functions=[ENC, DEC])

    def canary(ip, ctx):
        s = sym_int(ctx, "mask", 2, 254)
        ob = outcome_of(lambda: ip.call_function(func(DEC), [s], {}, ctx))
        # false claim: Monday is never in the result
        return [Obligation(PROP + "/_canary/decode", ctx, not (ob[0] == "ret" and members[0] in ob[1].s))]
    u["_canary"] = Unit("_canary", PROP, canary)
    return u


def replay_case(o):
    i = o.get("inputs") or {}
    if "_canary" in o["name"]:
        return {"prop": PROP, "kind": "canary", "inputs": i}
    if "mask" in i:
        return {"prop": PROP, "kind": "decode", "inputs": i}
    if "days" in i:
        return {"prop": PROP, "kind": "encode", "inputs": i}
    return None


def search_cases(o, seed):
    return [{"prop": PROP, "kind": "table", "inputs": {}}]


def native_cases(tier, seed):
    return [{"prop": PROP, "kind": "table", "inputs": {}},
            {"prop": PROP, "kind": "sequences", "inputs": {"seed": seed, "n": 2000 if tier == "quick" else 100000}}]
