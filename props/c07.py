"""C07 - the bridge delivers each valid broadcast once, in order, whatever else arrives (DESIGN.md 4/C07)"""
from .common import frame_ok as _frame_ok
import z3

from pyvc.sym import Seq, Elems, Obj, ExcVal, array_gen, char_fact, fresh_name
from pyvc.engine import Unit, Obligation, outcome_of, make_interp
from pyvc.interp import EnvObj, PyExc
from .common import func, cls, sym_bytes, real_enum
from .c05 import install_callback_env, datagram, LEN_OF, B, PARSE, E

PROP = "C07"
MIN_OBLIGATIONS = 300
ASSUMPTIONS = [
    "E2: while a datagram transport is open the event loop calls protocol.datagram_received exactly once per datagram received on its "
    "socket, in arrival order, never re-entrantly; an exception escaping the call goes to the loop's exception handler and leaves the "
    "transport open (CPython selector_events: the call sits in the else-branch of the receive try).  Delivery once and in order per "
    "socket and exception isolation are therefore ASSUMED; what is proved is that the code neither drops, duplicates, reorders nor "
    "retains anything and that a bad datagram or a raising callback leaves no trace",
    "from one datagram to all sequences: induction over the frame condition (the per-datagram code assigns nothing that outlives the "
    "call), meta-argument; exercised natively on loopback with mixed traffic",
    "the user's callback is modelled as an environment call that records its argument and then returns or raises",
]
ENUMERATED = ["9 device types x arbitrary bytes of the family's length; callback returning / raising"]
EXPLANATION = ("per-datagram contract of _parse_device_from_datagram on arbitrary datagram bytes with a callback that may raise: at most one "
               "callback call; an escaping exception is either the parser's (then no call happened) or the callback's own (after exactly "
               "one call, nothing else follows); a normal return of a known-type gate-passing datagram delivered exactly once; nothing is "
               "assigned.  UdpClientProtocol.datagram_received hands the datagram to its handler exactly once, synchronously, and "
               "assigns nothing.  DatagramParser.get_name through a raises-contract (returns text or raises a ValueError), proved here.")


class NameRaisesContract:
    qualname = B + "DatagramParser.get_name"

    def apply(self, ip, f, args, kwargs, ctx):
        ctx.used_contracts.add(self.qualname + " -> some text, or a ValueError (ill-formed UTF-8)")
        if ctx.fork(2) == 1:
            e = ExcVal("ValueError", ("contract of get_name",))
            e.alts = ["ValueError"]
            raise PyExc(e)
        return Seq('str', [array_gen(fresh_name("name"), ctx.fresh_int("namelen", 0, 32), (), char_fact)])


def interp_for(unit):
    contracts = {} if unit.name.startswith("dep_") else {NameRaisesContract.qualname: NameRaisesContract()}
    ip = make_interp(contracts=contracts)
    install_callback_env(ip)
    from .lifecycle import install_datagram_env
    install_datagram_env(ip)
    return ip


def units(tier):
    u = {}
    DT = E("DeviceType")
    for dt in DT:
        cat = dt.category.name
        splits = range(30) if cat == "THERMOSTAT" else [None]
        for split in splits:
            def fn(ip, ctx, dt=dt, cat=cat, split=split):
                m = datagram(ctx, dt, LEN_OF[cat])
                if split is not None:
                    ts = m.segs[0].terms
                    a, b = split // 5, split % 5
                    ctx.assume((ts[138] == a + 1) if a < 5 else z3.Or(ts[138] < 1, ts[138] > 5))
                    ctx.assume((ts[140] / 16 == b) if b < 4 else (ts[140] / 16 > 3))
                cb = EnvObj("callback", may_raise=True)
                ob = outcome_of(lambda: ip.call_function(func(PARSE), [cb, m], {}, ctx))
                calls = ctx.ghost.callback_calls
                base = f"{PROP}/{dt.name}" + (f"/case{split}" if split is not None else "")
                obs = [Obligation(base + "/at_most_one_callback_call", ctx, len(calls) <= 1)]
                if ob[0] == "ret":
                    obs.append(Obligation(base + "/normal_return_delivered_exactly_once", ctx, len(calls) == 1))
                else:
                    own = ob[1].cls == "CallbackError"
                    obs.append(Obligation(base + "/escaping_exception_is_parsers_xor_callbacks", ctx,
                                          (own and len(calls) == 1) or (not own and len(calls) == 0), note=f"{ob[1].cls}, {len(calls)} calls"))
                    if own:
                        last = ctx.ghost.events[-1][0] if ctx.ghost.events else None
                        obs.append(Obligation(base + "/nothing_happens_after_a_raising_callback", ctx, last in ("callback", "callback_object")))
                obs.append(Obligation(base + "/assigns_nothing", ctx, _frame_ok(ctx)[0] and not cb.state.keys() - {"may_raise"}))
                obs.append(Obligation(base + "/no_warning_for_a_known_type", ctx, not ctx.ghost.warnings))
                return obs
            nm = dt.name + (f"_{split}" if split is not None else "")
            u[nm] = Unit(nm, PROP, fn, functions=[PARSE])

    # a VALID broadcast is delivered exactly once, also when the callback raises (the per-family well-formedness of C05)
    for dt in DT:
        cat = dt.category.name
        splits = range(20) if cat == "THERMOSTAT" else [None]
        for split in splits:
            def valid(ip, ctx, dt=dt, cat=cat, split=split):
                m = datagram(ctx, dt, LEN_OF[cat])
                if split is not None:
                    ts = m.segs[0].terms
                    ctx.assume(z3.And(ts[138] == 1 + split // 4, ts[140] / 16 == split % 4))
                if cat in ("WATER_HEATER", "POWER_PLUG"):
                    wf = ip.call_function(func("spec.wf_type1"), [m, cat == "WATER_HEATER"], {}, ctx)
                elif cat == "SHUTTER":
                    wf = ip.call_function(func("spec.wf_shutter_bc"), [m], {}, ctx)
                else:
                    wf = ip.call_function(func("spec.wf_breeze_bc"), [m], {}, ctx)
                ctx.assume(ip.truth(wf, ctx))
                cb = EnvObj("callback", may_raise=True)
                ob = outcome_of(lambda: ip.call_function(func(PARSE), [cb, m], {}, ctx))
                if ob[0] == "exc" and getattr(ob[1], "alts", None):
                    return []          # the name is not valid UTF-8 (get_name's contract raised): not a valid broadcast
                base = f"{PROP}/valid_{dt.name}" + (f"/case{split}" if split is not None else "")
                return [Obligation(base + "/delivered_exactly_once", ctx, len(ctx.ghost.callback_calls) == 1,
                                   note=f"{len(ctx.ghost.callback_calls)} calls, outcome {ob[0]} {ob[1].cls if ob[0] == 'exc' else ''}"),
                        Obligation(base + "/only_the_callbacks_own_exception_escapes", ctx, ob[0] == "ret" or ob[1].cls == "CallbackError")]
            nm = "valid_" + dt.name + (f"_{split}" if split is not None else "")
            u[nm] = Unit(nm, PROP, valid, functions=[PARSE], params={"may_be_empty": True})

    # whenever the bridge reports running (also after a restart) every configured port has an open transport wired to the parser
    from . import c17 as C17
    for first in range(4):
        def wiring(ip, ctx, first=first):
            ALPHA = ["start_ok", "stop", "start_fail1", "leave_exc"]
            n = 2
            length = 1 + ctx.fork(4)
            seq = [ALPHA[first]] + [ALPHA[ctx.fork(len(ALPHA))] for _ in range(length - 1)]
            b, cb = C17.new_bridge(ip, ctx, n)
            ctx.sockets = []
            obs, hist = [], []
            for step, a in enumerate(seq):
                hist.append(a)
                ctx.call_no = step + 1
                ctx.ghost.events.clear()
                if a.startswith("start"):
                    ctx.fail_at_bind = 1 if a == "start_fail1" else None
                    outcome_of(lambda: ip.call_function(b.cls.find_method("start"), [b], {}, ctx))
                elif a == "stop":
                    outcome_of(lambda: ip.call_function(b.cls.find_method("stop"), [b], {}, ctx))
                else:
                    outcome_of(lambda: ip.call_function(b.cls.find_method("__aexit__"), [b, object(), ExcVal("ValueError", ("x",)), None], {}, ctx))
                if ip.getattr(b, "is_running", ctx) is True:
                    open_t, rec = C17.view(ctx, b, n)
                    ok = all(isinstance(rec.get(p), EnvObj) and not rec[p].state["closed"] and C17.wired(ip, rec[p], cb) for p in C17.PORTS[:n])
                    obs.append(Obligation(f"{PROP}/bridge_history/" + ">".join(hist) + "/running_means_every_port_delivers", ctx, ok))
            return obs
        u[f"wiring_{first}"] = Unit(f"wiring_{first}", PROP, wiring, functions=[B + "SwitcherBridge.start", B + "SwitcherBridge.stop"],
                                    params={"may_be_empty": True})

    def dep_name(ip, ctx):
        m = sym_bytes(ctx, "m", 165)
        parser = ip.instantiate(cls(B + "DatagramParser"), [m], {}, ctx)
        ob = outcome_of(lambda: ip.call_function(func(B + "DatagramParser.get_name"), [parser], {}, ctx))
        ok = (ob[0] == "ret" and isinstance(ob[1], (str, Seq))) or (ob[0] == "exc" and ob[1].cls in ("UnicodeDecodeError", "ValueError"))
        return [Obligation(f"{PROP}/dep_get_name/returns_text_or_ValueError", ctx, ok, prop_level=False)]
    u["dep_get_name"] = Unit("dep_get_name", PROP, dep_name, functions=[B + "DatagramParser.get_name"], proves=B + "DatagramParser.get_name")

    def protocol(ip, ctx):
        h = EnvObj("callback", may_raise=True)
        proto = ip.instantiate(cls(B + "UdpClientProtocol"), [h], {}, ctx)
        t = EnvObj("transport", port=1, closed=False)
        ip.call_function(proto.cls.find_method("connection_made"), [proto, t], {}, ctx)
        proto.preexisting = True
        data = sym_bytes(ctx, "data", 8)
        ctx.ghost.heap_writes.clear()
        ob = outcome_of(lambda: ip.call_function(proto.cls.find_method("datagram_received"), [proto, data, ("192.0.2.7", 20002)], {}, ctx))
        calls = ctx.ghost.callback_calls
        base = f"{PROP}/UdpClientProtocol/datagram_received"
        return [Obligation(base + "/hands_the_datagram_over_exactly_once", ctx, len(calls) == 1 and calls[0] is data),
                Obligation(base + "/leaves_the_transport_open", ctx, t.state.get("closed") is False and
                           not [e for e in ctx.ghost.events if e[0] == "close"]),
                Obligation(base + "/handler_exception_propagates_unchanged", ctx, ob[0] == "ret" or ob[1].cls == "CallbackError"),
                Obligation(base + "/assigns_nothing", ctx, not ctx.ghost.heap_writes and proto.attrs.get("transport") is t and
                           proto.attrs.get("_on_datagram") is h)]
    u["protocol"] = Unit("protocol", PROP, protocol, functions=[B + "UdpClientProtocol.datagram_received", B + "UdpClientProtocol.__init__",
                                                              B + "UdpClientProtocol.connection_made"])

    for lc in (0, 1, "ge2", 159, 165, 168):
        def foreign(ip, ctx, lc=lc):
            # anything that is not a Switcher broadcast (spec.gate_spec false), of any length: never delivered, no trace
            # (the three broadcast lengths are also taken as exact classes: every byte symbolic, magic wrong)
            from .c06 import mk_datagram
            m = mk_datagram(ctx, lc)
            g = ip.call_function(func("spec.gate_spec"), [m], {}, ctx)
            t = ip.truth(g, ctx)
            ctx.assume((not t) if isinstance(t, bool) else z3.Not(t))
            cb = EnvObj("callback", may_raise=True)
            ob = outcome_of(lambda: ip.call_function(func(PARSE), [cb, m], {}, ctx))
            base = f"{PROP}/foreign_len_{lc}"
            return [Obligation(base + "/never_delivered", ctx, len(ctx.ghost.callback_calls) == 0),
                    Obligation(base + "/no_exception_no_trace", ctx, ob[0] == "ret" and _frame_ok(ctx)[0]
                               and not ctx.ghost.warnings)]
        u[f"foreign_{lc}"] = Unit(f"foreign_{lc}", PROP, foreign, functions=[PARSE, B + "DatagramParser.is_switcher_originator"])

    def protocol_other(ip, ctx):
        # error_received / connection_lost never call the handler and assign nothing
        h = EnvObj("callback")
        proto = ip.instantiate(cls(B + "UdpClientProtocol"), [h], {}, ctx)
        proto.preexisting = True
        k = ctx.fork(4)
        meth, arg = [("error_received", None), ("error_received", ExcVal("OSError", ("x",))), ("connection_lost", None),
                     ("connection_lost", ExcVal("OSError", ("x",)))][k]
        t = EnvObj("transport", port=1, closed=False)
        proto.attrs["transport"] = t
        ob = outcome_of(lambda: ip.call_function(proto.cls.find_method(meth), [proto, arg], {}, ctx))
        base = f"{PROP}/UdpClientProtocol/{meth}_{'exc' if arg else 'none'}"
        return [Obligation(base + "/no_delivery_no_state_change", ctx, ob[0] == "ret" and not ctx.ghost.callback_calls and not ctx.ghost.heap_writes),
                Obligation(base + "/leaves_the_transport_open", ctx, t.state.get("closed") is False)]
    u["protocol_other"] = Unit("protocol_other", PROP, protocol_other, functions=[B + "UdpClientProtocol.error_received", B + "UdpClientProtocol.connection_lost"])

    def canary(ip, ctx):
        dt = list(DT)[0]
        m = datagram(ctx, dt, 165)
        cb = EnvObj("callback", may_raise=True)
        ob = outcome_of(lambda: ip.call_function(func(PARSE), [cb, m], {}, ctx))
        return [Obligation(PROP + "/_canary/never_raises", ctx, ob[0] == "ret")]
    u["_canary"] = Unit("_canary", PROP, canary)
    return u


def replay_case(o):
    if "_canary" in o["name"]:
        return {"prop": PROP, "kind": "canary", "inputs": {}}
    i = o.get("inputs") or {}
    if "m" in i:
        return {"prop": PROP, "kind": "one", "inputs": i}
    return None


def search_cases(o, seed):
    return [{"prop": PROP, "kind": "sequences", "inputs": {"seed": seed, "n": 200}}]


def native_cases(tier, seed):
    return [{"prop": PROP, "kind": "sequences", "inputs": {"seed": seed, "n": 200 if tier == "quick" else 5000}},
            {"prop": PROP, "kind": "loopback", "inputs": {"seed": seed, "n": 60 if tier == "quick" else 600}}]
