"""control_breeze_device (C16) and the Breeze frames of C01 / C03 / C09: one symbolic run of the real method per request
shape, observed by several properties"""
from .common import frame_ok as _frame_ok
import itertools
import z3

from pyvc.sym import Seq, Elems, Obj, PyDict, PySet, SymEnum, simp, zi
from pyvc.engine import Unit, Obligation, outcome_of, concretise, make_interp
from pyvc.irmodel import IRMap
from pyvc.contract import SpecContract
from pyvc import irmodel
from contracts.registry import TOOLS
from .common import func, cls, P, sym_int, sym_bytes, sym_bytes_atleast, real_enum, deep_equals
from .api_common import make_api, reply, the_clock, stream_env, API

M = "aioswitcher.api.messages."
R = "aioswitcher.api.remotes."
CBD = API + "SwitcherType2Api.control_breeze_device"
STATE_CODE = {"OFF": 0, "ON": 1}
MODE_CODE = {"AUTO": 1, "DRY": 2, "FAN": 3, "COOL": 4, "HEAT": 5}
FAN_CODE = {"AUTO": 0, "LOW": 1, "MEDIUM": 2, "HIGH": 3}


def E(n):
    return real_enum("aioswitcher.device", n)


class ThermostatResponseContract:
    """SwitcherThermostatStateResponse(r) == spec.ref_thermostat(r, 8, ...) for well-formed replies with an 8-character
    remote id (call-site precondition); proved by the dep_thermostat_response unit"""
    qualname = M + "SwitcherThermostatStateResponse"

    def apply(self, ip, c, args, kwargs, ctx):
        r = args[0]
        ctx.used_contracts.add(self.qualname + " -> spec.ref_thermostat")
        wf = ip.call_function(func("spec.wf_thermostat"), [r, 8], {}, ctx)
        if not ctx.entails(z3.BoolVal(True) if wf is True else (z3.BoolVal(False) if wf is False else wf)):
            # outside the contract's precondition: fall back to the body
            ip.no_contract_for = set(ip.no_contract_for) | {self.qualname}
            try:
                return ip.instantiate(c, args, kwargs, ctx)
            finally:
                ip.no_contract_for = set(ip.no_contract_for) - {self.qualname}
        d = ip.call_function(func("spec.ref_thermostat"),
                             [r, 8, E("DeviceState"), E("ThermostatMode"), E("ThermostatFanLevel"), E("ThermostatSwing")], {}, ctx)
        return Obj(c, dict(d.d))


CMDOK = z3.Function("CMD$ok", *([z3.IntSort()] * 6), z3.BoolSort())
CMDLEN = z3.Function("CMD$len", *([z3.IntSort()] * 7))
CMDCH = z3.Function("CMD$char", *([z3.IntSort()] * 8))


def enum_index(x):
    if x is None:
        return z3.IntVal(-1)
    if isinstance(x, SymEnum):
        # index in the class' definition order
        real = list(x.cls)
        out = z3.IntVal(real.index(x.members[-1]))
        for k in reversed(range(len(x.members) - 1)):
            out = z3.If(zi(x.idx) == k, z3.IntVal(real.index(x.members[k])), out)
        return simp(out)
    return z3.IntVal(list(type(x)).index(x))


def abstract_command(args6):
    """the command build_command yields for these arguments on the (fixed) remote: an uninterpreted function of the
    six arguments (what it is, is C15's business; that it is a function of them is the purity check dep_build_command_frame)"""
    from pyvc.sym import Gen
    a = [enum_index(args6[0]), enum_index(args6[1]), zi(args6[2]), enum_index(args6[3]), enum_index(args6[4]), enum_index(args6[5])]
    half = CMDLEN(*a)
    text = Gen(simp(2 * half), lambda i, a=a: CMDCH(*a, i), ("cmd",) + tuple(str(simp(x)) for x in a), 0, {"hex", "ascii", "lower"})
    return a, half, Seq('str', [text])


class BuildCommandContract:
    """build_command(state, mode, t, fan, swing, prev) on a given remote returns a deterministic function of its six
    arguments (a hex payload of 5..2004 bytes with its LE16 length) or raises KeyError when the IR set has no usable key"""
    qualname = R + "SwitcherBreezeRemote.build_command"

    def apply(self, ip, f, args, kwargs, ctx):
        from pyvc.interp import PyExc
        from pyvc.sym import ExcVal
        remote, rest = args[0], list(args[1:])
        names = ["state", "mode", "target_temp", "fan_level", "swing", "current_state"]
        vals = dict(zip(names, rest))
        vals.update(kwargs)
        six = [vals.get(n) for n in names]
        ctx.used_contracts.add(self.qualname + " -> uninterpreted CMD(state, mode, target, fan, swing, previous)")
        a, half, text = abstract_command(six)
        ctx._build_command_calls = getattr(ctx, "_build_command_calls", []) + [six]
        if not ctx.branch(CMDOK(*a)):
            raise PyExc(ExcVal("KeyError", ("no IR key for the request",)))
        ctx.fact(z3.And(half >= 5, half <= 2004))
        length = ip.call_function(func("spec.hexs"), [ip.call_function(func("spec.le16"), [half], {}, ctx)], {}, ctx)
        return Obj(cls(R + "SwitcherBreezeCommand"), {"command": text, "length": length})


def breeze_interp():
    contracts = {k: TOOLS[k] for k in TOOLS if k.endswith("sign_packet_with_crc_key") or k.endswith("set_message_length")}
    contracts[ThermostatResponseContract.qualname] = ThermostatResponseContract()
    contracts[BuildCommandContract.qualname] = BuildCommandContract()
    ip = make_interp(contracts=contracts)
    stream_env(ip)
    irmodel.install(ip)
    return ip


def request_shapes():
    State, Mode, Fan, Swing = E("DeviceState"), E("ThermostatMode"), E("ThermostatFanLevel"), E("ThermostatSwing")
    return list(itertools.product([None] + list(State), [None] + list(Mode), [None] + list(Fan), [None] + list(Swing),
                                  [False, True], [False, True]))     # state, mode, fan, swing, update_state, separate swing


def wf_state_reply(ip, ctx, name="R2"):
    """a well-formed thermostat state reply (8-character remote id), every field symbolic"""
    r = sym_bytes_atleast(ctx, name, 92, 1024)
    wf = ip.call_function(func("spec.wf_thermostat"), [r, 8], {}, ctx)
    ctx.assume(ip.truth(wf, ctx))
    return r


def code_term(x, table):
    """protocol code of an Enum member / SymEnum according to the specification's table (by member name)"""
    if isinstance(x, SymEnum):
        vals = [table[m.name] for m in x.members]
        out = z3.IntVal(vals[-1])
        for k in reversed(range(len(vals) - 1)):
            out = z3.If(zi(x.idx) == k, z3.IntVal(vals[k]), out)
        return simp(out)
    return table[x.name]


def member_of(ctx, x):
    if isinstance(x, SymEnum):
        k = ctx.concrete_int(zi(x.idx))
        if k is None:
            k = ctx.choose([zi(x.idx) == i for i in range(len(x.members))])
        return x.members[k]
    return x


def run_breeze(ip, ctx, shape, r1=("ge", 12), r2="wf", r3=None, r4=None):
    """one symbolic run of control_breeze_device; r3 / r4: None = fork {empty, non-empty}"""
    state, mode, fan, swing, update, sep = shape
    State, Mode, Fan, Swing = E("DeviceState"), E("ThermostatMode"), E("ThermostatFanLevel"), E("ThermostatSwing")
    toggle = False          # irrelevant to control_breeze_device itself (build_command is used through its contract)
    W = IRMap("W")
    mint = sym_int(ctx, "min_temp", -100, 100)
    maxt = sym_int(ctx, "max_temp", -100, 100)
    feats = PyDict({m: PyDict({"swing": False, "fan_levels": PySet(), "temperature_control": False}) for m in Mode})
    from pyvc.sym import PyList
    remote = ip.instantiate(cls(R + "SwitcherBreezeRemote"),
                            [PyDict({"IRSetID": "ELEC7022" if sep else "REMOTE01", "OnOffType": 0, "IRWaveList": PyList([])})], {}, ctx)
    remote.attrs.update({"_min_temp": mint, "_max_temp": maxt, "_on_off_type": toggle, "_ir_wave_map": W,
                         "_modes_features": feats, "_separated_swing_command": sep})
    from pyvc.interp import mark_preexisting
    mark_preexisting(remote)
    ctx.ghost.heap_writes.clear()
    R1 = reply(ctx, "R1", r1)
    R2 = wf_state_reply(ip, ctx) if r2 == "wf" else reply(ctx, "R2", r2)

    def later(name, spec_):
        def mk(ctx_):
            if spec_ is None:
                empty = ctx_.fork(2) == 0
                return reply(ctx_, name, 0 if empty else ("ge", 1))
            return reply(ctx_, name, spec_)
        return mk
    replies = [R1, R2, later("R3", r3), later("R4", r4)]
    api, idb, keyb = make_api(ip, ctx, 2, replies)
    t = sym_int(ctx, "target", 0, 255)
    ctx.inputs.update({"state": state, "mode": mode, "fan": fan, "swing": swing, "update_state": update, "sep": sep, "toggle": toggle})
    f = func(CBD)
    ob = outcome_of(lambda: ip.call_function(f, [api, remote, state, mode, t, fan, swing, update], {}, ctx))
    reads = [e[1] for e in ctx.ghost.events if e[0] == "read"]
    return {"api": api, "remote": remote, "W": W, "mint": mint, "maxt": maxt, "toggle": toggle, "idb": idb, "keyb": keyb,
            "R1": R1, "R2": R2, "reads": reads, "target": t, "outcome": ob, "writes": list(ctx.ghost.writes),
            "now": the_clock(ctx), "shape": shape}


def sp(ip, name, args, ctx):
    return ip.call_function(func("spec." + name), list(args), {}, ctx)


def c16_obligations(ip, ctx, run, base):
    """the statement of C16 for one path"""
    state, mode, fan, swing, update, sep = run["shape"]
    State, Mode, Fan, Swing = E("DeviceState"), E("ThermostatMode"), E("ThermostatFanLevel"), E("ThermostatSwing")
    obs = []
    ob, writes, reads, W = run["outcome"], run["writes"], run["reads"], run["W"]
    t = run["target"]
    now = run["now"]
    obs.append(Obligation(base + "/one_clock_read", ctx, now is not None))
    if now is None:
        return obs
    ts = sp(ip, "timestamp_of", [now], ctx)
    session = ip.getslice(run["R1"], 8, 12, ctx)
    idb = run["idb"]
    t_given = ctx.branch(simp(t != 0))
    actionable = bool(state or mode or fan or (swing and not sep)) or t_given
    swing_frame = bool(sep and swing and not update)
    want = [sp(ip, "login2_frame", [ts, idb], ctx)]
    empty = lambda r: ctx.entails(simp(zi(ip.builtins["len"].fn(ip, [r], {}, ctx)) == 0))
    must_raise = None
    if not actionable and not swing_frame:
        must_raise = "nothing actionable requested"
    if actionable:
        want.append(sp(ip, "get_state2_frame", [session, ts, idb], ctx))
        cur = sp(ip, "ref_thermostat", [run["R2"], 8, State, Mode, Fan, Swing], ctx).d
        S = state or cur["state"]
        Md = mode or cur["mode"]
        T = t if t_given else cur["target_temperature"]
        F = fan or cur["fan_level"]
        Sw = Swing.OFF if sep else (swing or cur["swing"])
        if update:
            want.append(sp(ip, "breeze_update_frame", [session, ts, idb, code_term(S, STATE_CODE), code_term(Md, MODE_CODE), T,
                                                       code_term(F, FAN_CODE), code_term(Sw, STATE_CODE)], ctx))
        else:
            a, half, text = abstract_command([S, Md, T, F, Sw, cur["state"]])
            if not ctx.branch(CMDOK(*a)):
                return []       # no usable key in the IR set for the merged request: the statement is silent about the command
            payload = ip.call_function(func("spec.unhex"), [text], {}, ctx)
            want.append(sp(ip, "breeze_command_frame", [session, ts, idb, payload], ctx))
        if len(reads) >= 3 and empty(reads[2]):
            must_raise = "the command reply is empty"
    if swing_frame and must_raise is None:
        key = sp(ip, "swing_key_spec", [swing is Swing.ON], ctx)
        if ctx.branch(W.has(key, ctx)):
            e = W.entry(key, ctx)
            payload = sp(ip, "command_payload", [W.text("Para", e.sid, e.t, ctx), W.text("HexCode", e.sid, e.t, ctx)], ctx)
            want.append(sp(ip, "breeze_command_frame", [session, ts, idb, payload], ctx))
        else:
            must_raise = "the special swing key is not in the IR set"
    # ---- frames
    obs.append(Obligation(base + "/frame_count", ctx, len(writes) == len(want), note=f"{len(writes)} written, {len(want)} expected"))
    names = ["login", "get_state", "main", "swing"] if actionable else ["login", "swing"]
    for j, (g, w) in enumerate(zip(writes, want)):
        obs.append(Obligation(base + f"/frame[{j}]_{names[j] if j < len(names) else j}_equals_reference", ctx, ip.equals(g, w, ctx)))
    # ---- outcome
    if must_raise is not None:
        obs.append(Obligation(base + "/raises_RuntimeError", ctx, ob[0] == "exc" and ob[1].cls == "RuntimeError", note=must_raise))
    else:
        obs.append(Obligation(base + "/returns_response", ctx, ob[0] == "ret", note=str(ob[1]) if ob[0] == "exc" else ""))
        if ob[0] == "ret":
            last = reads[-1]
            obs.append(Obligation(base + "/result_is_last_reply", ctx, ip.equals(ob[1].attrs.get("unparsed_response"), last, ctx)))
    obs.append(Obligation(base + "/assigns_nothing", ctx, _frame_ok(ctx)[0],
                          note=str([(type(o).__name__, a) for o, a in ctx.ghost.heap_writes][:2])))
    # never reports success after an empty reply
    if ob[0] == "ret":
        succ = ip.truth(ip.getattr(ob[1], "successful", ctx), ctx)
        anyempty = ip.disj([simp(zi(ip.builtins["len"].fn(ip, [r], {}, ctx)) == 0) for r in reads])
        goal = z3.Not(z3.And(succ if not isinstance(succ, bool) else z3.BoolVal(succ),
                             anyempty if not isinstance(anyempty, bool) else z3.BoolVal(anyempty)))
        obs.append(Obligation(base + "/no_success_after_an_empty_reply", ctx, simp(goal)))
    return obs


def shape_name(shape):
    state, mode, fan, swing, update, sep = shape
    n = lambda x: x.name if x is not None else "-"
    return f"{n(state)}_{n(mode)}_{n(fan)}_{n(swing)}_{'update' if update else 'ir'}_{'sep' if sep else 'std'}"


def success_obligations(ip, ctx, run, base):
    """C09 on the four-step exchange: whatever step's reply is empty, the call does not report success"""
    ob, reads = run["outcome"], run["reads"]
    if ob[0] != "ret":
        return [Obligation(base + "/raises_rather_than_reporting", ctx, True)]
    succ = ip.truth(ip.getattr(ob[1], "successful", ctx), ctx)
    anyempty = ip.disj([simp(zi(ip.builtins["len"].fn(ip, [r], {}, ctx)) == 0) for r in reads])
    goal = z3.Not(z3.And(succ if not isinstance(succ, bool) else z3.BoolVal(succ),
                         anyempty if not isinstance(anyempty, bool) else z3.BoolVal(anyempty)))
    return [Obligation(base + "/no_success_after_an_empty_reply", ctx, simp(goal))]


def breeze_units(prop, what, nchunks=32, shapes=None):
    """what: 'C16' full contract; 'C01' frame_ok of every write; 'C03' session/timestamp/id binding + frame conditions;
    'C09' no success after an empty reply"""
    u = {}
    shapes = shapes or request_shapes()
    for ch in range(nchunks):
        part = shapes[ch::nchunks]

        def fn(ip, ctx, part=part):
            shape = part[ctx.fork(len(part))]
            run = run_breeze(ip, ctx, shape)
            ctx._run = run
            base = f"{prop}/control_breeze_device/{shape_name(shape)}"
            if what == "C16":
                return c16_obligations(ip, ctx, run, base)
            if what == "C01":
                from .c01 import frame_obligations
                return frame_obligations(ip, ctx, base, run["writes"])
            if what == "C09":
                return success_obligations(ip, ctx, run, base)
            if what == "C03":
                from .c03 import binding_obligations
                return binding_obligations(ip, ctx, base, run, 2)
            return []
        u[f"breeze_{ch}"] = Unit(f"breeze_{ch}", prop, fn, functions=[CBD, API + "SwitcherType2Api._get_breeze_state",
                                                                    API + "SwitcherType2Api._control_breeze_swing_device",
                                                                    R + "SwitcherBreezeRemote.build_command",
                                                                    R + "SwitcherBreezeRemote.build_swing_command"],
                                 params={"may_be_empty": True}, max_paths=200000)
    u["dep_thermostat_response"] = dep_thermostat_unit(prop)
    return u


def dep_thermostat_unit(prop):
    def fn(ip, ctx):
        r = wf_state_reply(ip, ctx, "r")
        c = cls(M + "SwitcherThermostatStateResponse")
        ip.no_contract_for = {ThermostatResponseContract.qualname}
        ob = outcome_of(lambda: ip.instantiate(c, [r], {}, ctx))
        os_ = outcome_of(lambda: sp(ip, "ref_thermostat", [r, 8, E("DeviceState"), E("ThermostatMode"), E("ThermostatFanLevel"),
                                                            E("ThermostatSwing")], ctx))
        from .common import field_obligations
        return field_obligations(ip, ctx, f"{prop}/dep_thermostat_response", ob, os_, prop_level=False)
    return Unit("dep_thermostat_response", prop, fn, functions=[M + "SwitcherThermostatStateResponse.__post_init__"],
                proves=ThermostatResponseContract.qualname)
