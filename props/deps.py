"""units that discharge the call-site contracts of contracts/registry.py:TOOLS from the callees' bodies.  Every property
that relies on a contract re-proves it in its own run (phase 1); if a proof fails the callee is inlined in phase 2."""
import itertools
import z3

from pyvc.sym import Seq, Elems, Gen, PySet, PyList, array_gen, char_fact, simp, zi, is_hexchar
from pyvc.engine import Unit, Obligation, outcome_of, equiv_obligations, concretise
from pyvc.models import SymTimedelta
from pyvc.timemodels import TimeStr
from .common import equiv_unit, hex_or_not_str, sym_int, sym_enum, func, P, sym_outcome

T = "aioswitcher.device.tools."
S = "aioswitcher.schedule.tools."


def hex_message(ctx):
    """a hex string of even symbolic length >= 8: 8 per-character hex digits followed by an opaque all-hex tail"""
    ts = [z3.Int(f"m{i}") for i in range(8)]
    for t in ts:
        ctx.fact(is_hexchar(t))
    half = z3.Int("tail$half")
    ctx.fact(z3.And(half >= 0, half <= 3000))
    N = z3.Array("tail$N", z3.IntSort(), z3.IntSort())

    def fn(i):
        n = z3.Select(N, i) % 22
        return z3.If(n < 10, n + 48, z3.If(n < 16, n + 87, n + 49))
    g = Gen(simp(2 * half), fn, ("hexmsg", "tail"), 0, {"hex", "ascii"})
    m = Seq('str', [Elems(ts), g])
    ctx.inputs["message"] = m
    return m


def contract_units(prop, which=("sign", "setlen", "minutes", "timedelta", "name", "weekdays", "timeenc")):
    u = {}
    pl = False
    if "sign" in which:
        u["dep_sign"] = equiv_unit(prop, "dep_sign", T + "sign_packet_with_crc_key", "sign_spec",
                                   lambda ctx: [hex_or_not_str(ctx, "p", 0, 1 << 20)[0]], prop_level=pl,
                                   proves=T + "sign_packet_with_crc_key")
    if "setlen" in which:
        u["dep_set_message_length"] = equiv_unit(prop, "dep_set_message_length", T + "set_message_length", "set_length_spec",
                                                 lambda ctx: [hex_message(ctx)], kind=None, prop_level=pl, proves=T + "set_message_length")
    if "minutes" in which:
        u["dep_minutes"] = equiv_unit(prop, "dep_minutes", T + "minutes_to_hexadecimal_seconds", "minutes_spec",
                                      lambda ctx: [sym_int(ctx, "minutes")], prop_level=pl, proves=T + "minutes_to_hexadecimal_seconds")
    if "timedelta" in which:
        def mk_td(ctx):
            secs = sym_int(ctx, "seconds", -10 ** 7, 10 ** 7)
            ctx.inputs["full_time"] = SymTimedelta(secs)
            return [ctx.inputs["full_time"]]
        u["dep_timedelta"] = equiv_unit(prop, "dep_timedelta", T + "timedelta_to_hexadecimal_seconds", "auto_shutdown_spec", mk_td,
                                        spec_args=lambda a: [a[0].secs], prop_level=pl, proves=T + "timedelta_to_hexadecimal_seconds")
    if "name" in which:
        for L in range(0, 41):
            def mk_name(ctx, L=L):
                from .apiops import ops as _ops
                args, info = _ops()["set_device_name"].mkargs(None, ctx, L)
                return args
            u[f"dep_name_len{L}"] = equiv_unit(prop, f"dep_name_len{L}", T + "string_to_hexadecimale_device_name", "name_spec", mk_name,
                                               prop_level=pl, proves=T + "string_to_hexadecimale_device_name")
    if "weekdays" in which:
        D = P().real["aioswitcher.schedule"].Days
        members = list(D)
        sets = [c for size in range(8) for c in itertools.combinations(members, size)]

        def wk(ip, ctx):
            k = ctx.fork(len(sets) + 3)
            if k < len(sets):
                days = PySet(sets[k])
            else:
                days = PyList([sym_enum(ctx, f"d{i}", D) for i in range(k - len(sets) + 1)])
            f = func(S + "weekdays_to_hexadecimal")
            ip.no_contract_for = {f.qualname}
            ob = outcome_of(lambda: ip.call_function(f, [days], {}, ctx))
            os_ = outcome_of(lambda: ip.call_function(func("spec.weekdays_encode_spec"), [days, D], {}, ctx))
            return equiv_obligations(ip, ctx, f"{prop}/dep_weekdays/{k}", ob, os_, prop_level=pl)
        u["dep_weekdays"] = Unit("dep_weekdays", prop, wk, functions=[S + "weekdays_to_hexadecimal"], proves=S + "weekdays_to_hexadecimal")
    if "timeenc" in which:
        def te(ip, ctx):
            v = TimeStr("v", ctx)
            ctx.inputs["v"] = v
            f = func(S + "time_to_hexadecimal_timestamp")
            ip.no_contract_for = {f.qualname}
            ob = outcome_of(lambda: ip.call_function(f, [v], {}, ctx))
            os_ = outcome_of(lambda: ip.call_function(func("spec.time_encode_spec"), [v], {}, ctx))
            return equiv_obligations(ip, ctx, f"{prop}/dep_time_encode", ob, os_, prop_level=pl)
        u["dep_time_encode"] = Unit("dep_time_encode", prop, te, functions=[S + "time_to_hexadecimal_timestamp"],
                                    proves=S + "time_to_hexadecimal_timestamp")
    return u
