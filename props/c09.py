"""C09 - no device reply can crash the client or be mistaken for success (DESIGN.md 4/C09)"""
import z3

from pyvc.sym import Seq, Elems, Obj
from pyvc.engine import Unit, Obligation, outcome_of, concretise
from .common import func, cls, sym_bytes, sym_bytes_atleast
from .apiops import ops, run_op, interp_with_contracts, op_witness
from .api_common import API, reply
from .common import frame_ok as _frame_ok

PROP = "C09"
MIN_OBLIGATIONS = 500
ASSUMPTIONS = [
    "exception hierarchy of the library models (binascii.Error, UnicodeDecodeError are ValueErrors; KeyError/IndexError are LookupErrors)",
    "utf-8 decode of arbitrary bytes: either UnicodeDecodeError or some text (over-approximation)",
    "E6 stream environment; replies are arbitrary byte strings of 0..1024 bytes",
]
ENUMERATED = ["state reply length: every exact length below the parser's largest offset (type-1: 0..100, shutter: 0..79, thermostat: "
              "0..91) plus one symbolic class for all longer replies (up to 1024); login reply: empty / 5 bytes / >= 12 bytes"]
EXPLANATION = ("exception-class analysis: the three state queries are executed from the AST on replies whose every byte and whose length "
               "class are arbitrary; every path must end in a normal return or in RuntimeError; with an empty login reply the state "
               "queries and all type-2 operations raise RuntimeError after exactly one frame; SwitcherBaseResponse.successful is "
               "proved equivalent to 'reply non-empty'; on the four-step thermostat exchange (login, state, command, separate swing "
               "command) with every later reply forked empty / non-empty the call never returns a response that reports success "
               "when a reply it read was empty (the 'mistaken for success' of the title, at operation level)")
QUERY = {"get_state": 101, "get_shutter_state": 80, "get_breeze_state": 92}


M = "aioswitcher.api.messages."
RESP = {"get_state": "SwitcherStateResponse", "get_shutter_state": "SwitcherShutterStateResponse",
        "get_breeze_state": "SwitcherThermostatStateResponse"}


class RaisesContract:
    """ResponseClass(r): returns an object whose unparsed_response is r, or raises KeyError / ValueError; an empty reply
    always raises.  Proved per reply-length class by the dep_<class>_len* units (exception-class analysis of the parser)."""
    def __init__(self, clsname):
        self.qualname = M + clsname

    def apply(self, ip, c, args, kwargs, ctx):
        from pyvc.interp import PyExc
        from pyvc.sym import ExcVal
        r = args[0]
        ctx.used_contracts.add(self.qualname + " -> returns or raises KeyError/ValueError; empty reply raises")
        n = ip.builtins["len"].fn(ip, [r], {}, ctx) if r is not None else 0
        empty = ctx.branch((n == 0) if isinstance(n, int) else z3.simplify(n == 0))
        k = ctx.fork(2 if empty else 3)
        if k == 0:
            raise PyExc(ExcVal("KeyError", ("contract",)))
        if k == 1:
            raise PyExc(ExcVal("ValueError", ("contract",)))
        return Obj(c, {"unparsed_response": r})


def interp_for(unit):
    if unit.name.startswith("breeze"):
        from .breeze import breeze_interp
        return breeze_interp()
    ip = interp_with_contracts()
    if not unit.name.startswith("dep_"):
        from pyvc.engine import make_interp
        contracts = dict(ip.contracts)
        for cn in RESP.values():
            contracts[M + cn] = RaisesContract(cn)
        ip2 = make_interp(contracts=contracts)
        ip2.env_handlers = ip.env_handlers
        return ip2
    return ip


def units(tier):
    u = {}
    # ---- the parsers' exception classes, per reply-length class (phase 1: proves the RaisesContract of each class)
    for qname, bound in QUERY.items():
        cn = RESP[qname]
        for lc in list(range(0, bound)) + [("ge", bound)]:
            n_at_least = lc[1] if isinstance(lc, tuple) else lc
            # case split (mode byte class x fan nibble class) for the long thermostat replies: spreads ~1300 paths over workers
            splits = [None]
            if cn == "SwitcherThermostatStateResponse" and n_at_least >= 84:
                splits = [(a, b) for a in range(6) for b in range(5)]
            for split in splits:
                def dep(ip, ctx, cn=cn, lc=lc, split=split):
                    r = reply(ctx, "r", lc)
                    if split is not None:
                        ts = r.segs[0].terms
                        a, b = split
                        ctx.assume((ts[79] == a + 1) if a < 5 else z3.Or(ts[79] < 1, ts[79] > 5))
                        ctx.assume((ts[81] / 16 == b) if b < 4 else (ts[81] / 16 > 3))
                    ob = outcome_of(lambda: ip.instantiate(cls(M + cn), [r], {}, ctx))
                    tag = f"ge{lc[1]}" if isinstance(lc, tuple) else str(lc)
                    base = f"{PROP}/{cn}/reply_len_{tag}" + (f"/case{split[0]}{split[1]}" if split else "")
                    ok = ob[0] == "ret" or ob[1].cls in ("KeyError", "ValueError", "UnicodeDecodeError", "binascii.Error")
                    obs = [Obligation(base + "/returns_or_KeyError_ValueError", ctx, ok, note="" if ok else f"escaping {ob[1].cls}")]
                    if ob[0] == "ret":
                        obs.append(Obligation(base + "/keeps_the_reply", ctx, ip.equals(ob[1].attrs.get("unparsed_response"), r, ctx)))
                    if lc == 0:
                        obs.append(Obligation(base + "/empty_reply_raises", ctx, ob[0] == "exc"))
                    return obs
                tag = f"ge{lc[1]}" if isinstance(lc, tuple) else str(lc)
                nm = f"dep_{cn}_len{tag}" + (f"_{split[0]}{split[1]}" if split else "")
                u[nm] = Unit(nm, PROP, dep, functions=[M + cn + ".__post_init__"], proves=M + cn)
    # ---- the three state queries on arbitrary replies (response classes through their RaisesContract)
    for qname, bound in QUERY.items():
        op = ops()[qname]
        for r1 in (("ge", 12), 5):
            for lc in (0, ("ge", 1)):
                def fn(ip, ctx, op=op, r1=r1, lc=lc):
                    run = run_op(ip, ctx, op, 0, r1, lc)
                    ctx._run = run
                    ob = run["outcome"]
                    tag = f"{'ge' + str(lc[1]) if isinstance(lc, tuple) else lc}"
                    base = f"{PROP}/{op.name}/login_{'ge12' if r1 != 5 else '5'}/reply_len_{tag}"
                    ok = ob[0] == "ret" or ob[1].cls == "RuntimeError"
                    obs = [Obligation(base + "/returns_or_RuntimeError", ctx, ok, note="" if ok else f"escaping {ob[1].cls}")]
                    if isinstance(lc, int) and lc == 0:
                        obs.append(Obligation(base + "/empty_reply_is_not_success", ctx, ob[0] == "exc" and ob[1].cls == "RuntimeError"))
                    # 'at any step' of a longer exchange on the same object: the operation leaves nothing behind that a later
                    # operation reads (otherwise what was proved from a fresh object says nothing about the second call)
                    obs.append(Obligation(base + "/assigns_nothing", ctx, _frame_ok(ctx)[0],
                                          note=str([(type(o).__name__, a) for o, a in ctx.ghost.heap_writes][:3])))
                    return obs
                tag = f"ge{lc[1]}" if isinstance(lc, tuple) else str(lc)
                nm = f"{qname}_{'l12' if r1 != 5 else 'l5'}_{tag}"
                u[nm] = Unit(nm, PROP, fn, functions=[op.qual(), API + "SwitcherApi._login"])
    # empty login reply: RuntimeError after exactly one frame
    for name in ("get_state", "get_shutter_state", "get_breeze_state", "stop", "set_position"):
        op = ops()[name]

        def fn(ip, ctx, op=op):
            run = run_op(ip, ctx, op, 0, 0, ("ge", 0) if op.name in ("stop", "set_position") else 0)
            ctx._run = run
            ob = run["outcome"]
            base = f"{PROP}/{op.name}/empty_login_reply"
            return [Obligation(base + "/raises_RuntimeError", ctx, ob[0] == "exc" and ob[1].cls == "RuntimeError",
                               note=str(ob[1]) if ob[0] == "exc" else "returned normally"),
                    Obligation(base + "/no_further_frame", ctx, len(run["writes"]) == 1, note=f"{len(run['writes'])} frames written"),
                    Obligation(base + "/assigns_nothing", ctx, _frame_ok(ctx)[0],
                               note=str([(type(o).__name__, a) for o, a in ctx.ghost.heap_writes][:3]))]
        u[f"{name}_empty_login"] = Unit(f"{name}_empty_login", PROP, fn, functions=[op.qual()], witness=op_witness(PROP, op, 0))

    def breeze_empty(ip, ctx):
        from .breeze import run_breeze, request_shapes
        shapes = request_shapes()
        shape = shapes[ctx.fork(len(shapes))]
        run = run_breeze(ip, ctx, shape, r1=0, r2=0)
        ob = run["outcome"]
        from .breeze import shape_name
        base = f"{PROP}/control_breeze_device/empty_login_reply/{shape_name(shape)}"
        return [Obligation(base + "/raises_RuntimeError", ctx, ob[0] == "exc" and ob[1].cls == "RuntimeError"),
                Obligation(base + "/no_further_frame", ctx, len(run["writes"]) == 1)]
    u["breeze_empty_login"] = Unit("breeze_empty_login", PROP, breeze_empty, functions=[API + "SwitcherType2Api.control_breeze_device"])

    # the four-step thermostat exchange: an empty reply at any step is never reported as success (request shapes reduced to
    # one representative mode / fan level: which replies are read does not depend on the values; C16 covers every shape)
    from .breeze import breeze_units, request_shapes
    reps = {}
    for sh in request_shapes():
        st, md, fn_, sw, upd, sep = sh
        key = (st, md is not None, fn_ is not None, sw, upd, sep)
        reps.setdefault(key, sh)
    for k, v in breeze_units(PROP, "C09", nchunks=8, shapes=list(reps.values())).items():
        if not k.startswith("dep_"):
            u["breeze_steps_" + k.split("_")[1]] = v
            v.name = "breeze_steps_" + k.split("_")[1]
        else:
            u[k] = v

    def successful(ip, ctx):
        c = cls("aioswitcher.api.messages.SwitcherBaseResponse")
        k = ctx.fork(3)
        if k == 0:
            r, want = None, False
        elif k == 1:
            r, want = b"", False
        else:
            r = sym_bytes_atleast(ctx, "r", 0, 4096)
            want = r.length() != 0
        o = ip.instantiate(c, [r], {}, ctx)
        got = ip.truth(ip.getattr(o, "successful", ctx), ctx)
        return [Obligation(f"{PROP}/SwitcherBaseResponse/successful_iff_non_empty/{['None', 'empty', 'bytes'][k]}", ctx,
                           ip.equals(got, want, ctx))]
    u["successful"] = Unit("successful", PROP, successful, functions=["aioswitcher.api.messages.SwitcherBaseResponse.successful"])

    def canary(ip, ctx):
        run = run_op(ip, ctx, ops()["get_state"], 0, ("ge", 12), 50)
        ob = run["outcome"]
        return [Obligation(PROP + "/_canary/never_raises", ctx, ob[0] == "ret")]
    u["_canary"] = Unit("_canary", PROP, canary)
    return u


QUICK_WITNESSES = 400


def replay_case(o):
    i = o.get("inputs") or {}
    name = o["name"].split("/")
    if "_canary" in o["name"]:
        return {"prop": PROP, "kind": "canary", "inputs": i}
    op = ops().get(name[1])
    if op is None or "R1" not in i:
        return None
    return {"prop": PROP, "kind": "op_check", "op": op.method, "api": op.kind, "inputs": i}


def search_cases(o, seed):
    if "control_breeze_device" in o["name"]:
        return [{"prop": PROP, "kind": "breeze_steps", "inputs": {"seed": seed, "n": 300}}]
    return [{"prop": PROP, "kind": "sweep", "inputs": {"seed": seed, "n": 3000}}]


def native_cases(tier, seed):
    return [{"prop": PROP, "kind": "sweep", "inputs": {"seed": seed, "n": 3000 if tier == "quick" else 100000}},
            {"prop": PROP, "kind": "sweep", "inputs": {"seed": seed + 7, "n": 700 if tier == "quick" else 20000, "debug_logging": True}},
            {"prop": PROP, "kind": "prefixes", "inputs": {}},
            {"prop": PROP, "kind": "breeze_steps", "inputs": {"seed": seed, "n": 150 if tier == "quick" else 5000}},
            {"prop": PROP, "kind": "op_sequences", "inputs": {"seed": seed, "n": 150 if tier == "quick" else 5000}}]
