"""C19 - device types, categories, classes and ports are mutually consistent (DESIGN.md 4/C19)"""
import enum

from pyvc.sym import PyDict
from pyvc.engine import Unit, Obligation, outcome_of
from pyvc.interp import Ctx, Frame, EnvObj
from .common import func, cls, P, real_enum

PROP = "C19"
MIN_OBLIGATIONS = 80
ASSUMPTIONS = ["Enum construction: device/__init__.py of the current tree is executed to obtain the real members (DESIGN.md 2.12)"]
ENUMERATED = ["4 device classes x 9 device types", "9 device types", "4 categories x 2 port tables"]
EXPLANATION = ("closed obligations over the constants of the current source: the real DeviceType members, the two port dictionaries "
               "(evaluated from their AST), and the four __post_init__ guards executed on every device type")
CLASS_CATEGORY = {"SwitcherPowerPlug": "POWER_PLUG", "SwitcherWaterHeater": "WATER_HEATER", "SwitcherThermostat": "THERMOSTAT",
                  "SwitcherShutter": "SHUTTER"}
# the statement: type 1: UDP 20002, TCP 9957; type 2: UDP 20003, TCP 10000
PORTS = {1: {"udp": 20002, "tcp": 9957}, 2: {"udp": 20003, "tcp": 10000}}


def module_const(ip, modname, name, ctx):
    m = P().modules[modname]
    r = P().resolve_static(m, name)
    if r is None:
        from pyvc.interp import Unsupported
        raise Unsupported(f"{modname}.{name} not found")
    return ip.static_value(r, ctx)


def interp_for(unit):
    from pyvc.engine import make_interp
    ip = make_interp()
    if not hasattr(ip, "env_handlers"):
        ip.env_handlers = {}

    def anyvalue(ip_, o, name, args, kw, ctx):
        # an arbitrary field value: truthiness and equality are unknown (environment choice), nothing else is offered
        if name == "__bool__":
            return bool(ctx.fork(2))
        if name in ("__eq__", "__ne__"):
            return bool(ctx.fork(2))
        if name == "__len__":
            return [0, 1, 7][ctx.fork(3)]
        return NotImplemented
    ip.env_handlers["anyvalue"] = anyvalue
    return ip


def units(tier):
    u = {}
    DT = real_enum("aioswitcher.device", "DeviceType")
    DC = real_enum("aioswitcher.device", "DeviceCategory")
    DS = real_enum("aioswitcher.device", "DeviceState")

    def guards(ip, ctx):
        # one (class, device type) pair per path family, so that forks caused by a guard that looks at field values do not multiply
        pairs = [(cname, cat, t) for cname, cat in CLASS_CATEGORY.items() for t in DT]
        cname, cat, t = pairs[ctx.fork(len(pairs))]
        c = cls("aioswitcher.device." + cname)
        nargs = len([f for f in c.dataclass_fields() if f[3]])
        # every other field holds an arbitrary value: anything the guard does with it (truth test, comparison) forks
        args = [t, DS.ON] + [EnvObj("anyvalue", n=i) for i in range(nargs - 2)]
        ob = outcome_of(lambda: ip.instantiate(c, args, {}, ctx))
        should_accept = t.category.name == cat
        if should_accept:
            ok = ob[0] == "ret" and ob[1].attrs.get("device_type") is t
        else:
            ok = ob[0] == "exc" and ob[1].cls == "ValueError"
        return [Obligation(f"{PROP}/{cname}/{t.name}/" + ("accepts" if should_accept else "refuses"), ctx, bool(ok),
                           note=f"outcome {ob[0]} {ob[1] if ob[0] == 'exc' else ''}")]
    u["class_guards"] = Unit("class_guards", PROP, guards,
                             functions=["aioswitcher.device." + c + ".__post_init__" for c in CLASS_CATEGORY])

    def types(ip, ctx):
        obs = []
        codes = [t.hex_rep for t in DT]
        for t in DT:
            code = t.hex_rep
            obs.append(Obligation(f"{PROP}/DeviceType/{t.name}/model_code_two_bytes", ctx,
                                  isinstance(code, str) and len(code) == 4 and all(ch in "0123456789abcdefABCDEF" for ch in code)))
            obs.append(Obligation(f"{PROP}/DeviceType/{t.name}/model_code_unique", ctx, [c.lower() for c in codes].count(code.lower()) == 1))
            obs.append(Obligation(f"{PROP}/DeviceType/{t.name}/protocol_type", ctx, t.protocol_type in (1, 2)))
            obs.append(Obligation(f"{PROP}/DeviceType/{t.name}/category", ctx, isinstance(t.category, DC)))
        return obs
    u["device_types"] = Unit("device_types", PROP, types, functions=["aioswitcher.device.DeviceType"])

    def ports(ip, ctx):
        obs = []
        tcp = module_const(ip, "aioswitcher.api", "SWITCHER_DEVICE_TO_TCP_PORT", ctx)
        udp = module_const(ip, "aioswitcher.bridge", "SWITCHER_DEVICE_TO_UDP_PORT", ctx)
        for nm, table in (("tcp", tcp), ("udp", udp)):
            ok = isinstance(table, PyDict) and set(table.d.keys()) == set(DC)
            obs.append(Obligation(f"{PROP}/ports/{nm}/domain_is_all_categories", ctx, bool(ok)))
            for t in DT:
                v = table.d.get(t.category) if isinstance(table, PyDict) else None
                want = PORTS.get(t.protocol_type, {}).get(nm)
                obs.append(Obligation(f"{PROP}/ports/{nm}/{t.name}", ctx, v == want and want is not None, note=f"table {v}, statement {want}"))
        # categories are protocol-homogeneous (otherwise a per-category port could not be right for every type)
        for c in DC:
            pts = {t.protocol_type for t in DT if t.category is c}
            obs.append(Obligation(f"{PROP}/ports/category_{c.name}_single_protocol", ctx, len(pts) == 1))
        return obs
    u["ports"] = Unit("ports", PROP, ports, functions=["aioswitcher.api.SWITCHER_DEVICE_TO_TCP_PORT", "aioswitcher.bridge.SWITCHER_DEVICE_TO_UDP_PORT"])

    def stateless(ip, ctx):
        """the consistency must hold at any time, not only in a fresh process: the class guards may depend on nothing but the
        device type (no module-level switch), and using the library (building bridges / API objects with default arguments)
        must not rewrite the tables"""
        import ast
        obs = []
        allowed = {"self", "super", "DeviceCategory", "ValueError", "datetime", "field", "None"}
        dm = P().modules["aioswitcher.device"]
        for cname in CLASS_CATEGORY:
            c = dm.classes[cname]
            pi = c.methods.get("__post_init__")
            names = {n.id for n in ast.walk(pi.node) if isinstance(n, ast.Name)} if pi else set()
            deco = [d for d in (pi.decorators if pi else [])]
            obs.append(Obligation(f"{PROP}/{cname}/guard_reads_only_the_device_type", ctx, pi is not None and names <= allowed and not deco,
                                  note=f"other names read: {sorted(names - allowed)} decorators: {deco}", prop_level=False))
        for mn in ("aioswitcher.device", "aioswitcher.api", "aioswitcher.bridge"):
            m = P().modules[mn]
            obs.append(Obligation(f"{PROP}/static/{mn}/no_global_or_nonlocal", ctx, not m.has_global_stmt, prop_level=False))
        # default construction of the public objects leaves the tables alone
        from pyvc.interp import EnvObj
        b = ip.instantiate(cls("aioswitcher.bridge.SwitcherBridge"), [EnvObj("callback")], {}, ctx)
        b2 = ip.instantiate(cls("aioswitcher.bridge.SwitcherBridge"), [EnvObj("callback")], {}, ctx)
        a1 = ip.instantiate(cls("aioswitcher.api.SwitcherType1Api"), ["192.0.2.1", "ab1234", "00"], {}, ctx)
        a2 = ip.instantiate(cls("aioswitcher.api.SwitcherType2Api"), ["192.0.2.1", "ab1234", "00"], {}, ctx)
        obs.append(Obligation(f"{PROP}/construction_assigns_no_module_state", ctx, not ctx.ghost.module_writes, note=str(ctx.ghost.module_writes[:3])))
        ports = b.attrs.get("_broadcast_ports")
        ports2 = b2.attrs.get("_broadcast_ports")
        obs.append(Obligation(f"{PROP}/default_bridge_ports_cover_both_protocol_types_every_time", ctx,
                              hasattr(ports, "items") and hasattr(ports2, "items") and {20002, 20003} <= set(ports.items) and ports.items == ports2.items,
                              note=str(getattr(ports2, "items", None))))
        obs.append(Obligation(f"{PROP}/api_default_ports", ctx, a1.attrs.get("_port") == 9957 and a2.attrs.get("_port") == 10000))
        tcp = module_const(ip, "aioswitcher.api", "SWITCHER_DEVICE_TO_TCP_PORT", ctx)
        udp = module_const(ip, "aioswitcher.bridge", "SWITCHER_DEVICE_TO_UDP_PORT", ctx)
        for t in DT:
            obs.append(Obligation(f"{PROP}/ports_after_use/{t.name}", ctx, tcp.d.get(t.category) == PORTS[t.protocol_type]["tcp"] and
                                  udp.d.get(t.category) == PORTS[t.protocol_type]["udp"]))
        return obs
    u["stateless"] = Unit("stateless", PROP, stateless)

    def canary(ip, ctx):
        return [Obligation(PROP + "/_canary/breeze_is_type1", ctx, DT.BREEZE.protocol_type == 1)]
    u["_canary"] = Unit("_canary", PROP, canary)
    return u


def replay_case(o):
    if "_canary" in o["name"]:
        return {"prop": PROP, "kind": "canary", "inputs": {}}
    return {"prop": PROP, "kind": "table", "inputs": {}}


def native_cases(tier, seed):
    return [{"prop": PROP, "kind": "table", "inputs": {}}, {"prop": PROP, "kind": "after_use", "inputs": {}}]
