"""asyncio environment models E1..E6 (DESIGN.md 3.2) for the lifecycle properties C17 / C18 and the delivery property C07"""
import z3

from pyvc.sym import ExcVal, Obj
from pyvc.interp import EnvObj, PyExc, Unsupported, Builtin
from pyvc.engine import make_interp
from .api_common import stream_env


def install_stream_connect(ip):
    """E5: asyncio.open_connection either raises OSError without side effects or returns a fresh open (reader, writer)"""
    def open_connection(ip_, args, kw, ctx):
        if args:
            raise Unsupported("open_connection with positional arguments")
        ctx.ghost.events.append(("open_connection", dict(kw)))
        if ctx.fork(2) == 1:
            raise PyExc(ExcVal("OSError", ("connection refused",)))
        w = EnvObj("writer")
        r = EnvObj("reader", replies=getattr(ctx, "reply_script", []))
        socks = getattr(ctx, "sockets", None)
        if socks is None:
            socks = []
            ctx.sockets = socks
        socks.append(w)
        return (r, w)
    ip.ext_models["asyncio.open_connection"] = Builtin("open_connection", open_connection)
    stream_env(ip)


def install_datagram_env(ip):
    """E1/E3/E4: loop.create_datagram_endpoint binds a port or raises OSError and changes nothing; it must fail when an
    open transport of this process is already bound to the port (no SO_REUSEPORT is requested: checked on the call)"""
    def get_running_loop(ip_, args, kw, ctx):
        return EnvObj("loop")

    def loop_handler(ip_, o, name, args, kw, ctx):
        if name in ("call_soon", "call_soon_threadsafe", "call_later", "call_at"):
            # E8: the loop runs a scheduled callable in a LATER iteration - not before the current callback returns, and
            # possibly after whatever the application does next (stop() included).  It is recorded, not executed.
            ctx.used_models.add("E8: loop.call_soon/call_later defer the callable to a later loop iteration")
            ctx.ghost.events.append(("deferred", name, tuple(args)))
            return EnvObj("handle", cancelled=False)
        if name != "create_datagram_endpoint":
            return NotImplemented
        if "reuse_port" in kw or "allow_broadcast" in kw and False:
            raise Unsupported("create_datagram_endpoint with reuse_port")
        factory = args[0] if args else kw.get("protocol_factory")
        addr = kw.get("local_addr")
        port = addr[1] if isinstance(addr, tuple) and len(addr) == 2 else None
        socks = getattr(ctx, "sockets", None)
        if socks is None:
            socks = []
            ctx.sockets = socks
        def same_port(a, b):
            return a is b or (isinstance(a, int) and isinstance(b, int) and a == b)
        busy = any(same_port(t.state["port"], port) and not t.state["closed"] for t in socks)
        ctx.ghost.events.append(("bind", port))
        fail_at = getattr(ctx, "fail_at_bind", None)
        nth = len([e for e in ctx.ghost.events if e[0] == "bind"]) - 1
        if busy or (fail_at is not None and nth == fail_at):
            raise PyExc(ExcVal("OSError", ("address already in use",)))
        proto = ip_.call(factory, [], {}, ctx)
        t = EnvObj("transport", port=port, closed=False, protocol=proto, created_by_call=getattr(ctx, "call_no", 0))
        socks.append(t)
        return (t, proto)

    def transport_handler(ip_, o, name, args, kw, ctx):
        if name == "get_extra_info":
            key = args[0] if args else None
            if key == "sockname":
                # the address the socket is really bound to: the configured port, or the one the system picked for port 0
                port = o.state["port"]
                bound = port if not (isinstance(port, int) and port == 0) else 49152 + len(getattr(ctx, "sockets", []))
                return ("0.0.0.0", bound)
            if key == "socket":
                raise Unsupported("transport.get_extra_info('socket')")
            return args[1] if len(args) > 1 else None
        if name == "is_closing":
            return bool(o.state["closed"])
        if name == "close":
            o.state["closed"] = True
            ctx.ghost.events.append(("close", o))
            return None
        if name == "__bool__":
            return True
        return NotImplemented
    ip.ext_models["asyncio.get_running_loop"] = Builtin("get_running_loop", get_running_loop)
    ip.ext_models["asyncio.BaseTransport"] = ("typing", "BaseTransport")
    ip.ext_models["asyncio.DatagramProtocol"] = ("typing", "DatagramProtocol")
    if not hasattr(ip, "env_handlers"):
        ip.env_handlers = {}
    ip.env_handlers["loop"] = loop_handler
    ip.env_handlers["transport"] = transport_handler


def lifecycle_interp():
    ip = make_interp(contracts={})
    install_stream_connect(ip)
    install_datagram_env(ip)
    from .c05 import install_callback_env
    install_callback_env(ip)
    return ip
