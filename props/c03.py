"""C03 - every operation logs in first and binds its commands to that login's session (DESIGN.md 4/C03)"""
from .common import frame_ok as _frame_ok
import ast
import z3

from pyvc.engine import Unit, Obligation
from .common import func, P
from .apiops import ops, run_op, sp, interp_with_contracts, op_witness, QUERIES, login_frame
from .api_common import API

PROP = "C03"
MIN_OBLIGATIONS = 300
ASSUMPTIONS = [
    "E6 stream environment; E7 cooperative scheduling (a coroutine runs atomically between awaits)",
    "device id / key lower-case hex; 0 <= time.time() < 2^32 - 1",
    "from the per-call contract to all sequences and interleavings: induction over the discharged frame condition (an operation "
    "assigns no attribute of a pre-existing object and no module state, so the next operation starts from the same state) and "
    "non-interference by disjoint footprints between instances -- a meta-argument over the discharged obligations, not a solver "
    "obligation; two coroutines on the SAME instance are not claimed",
]
ENUMERATED = ["all operations x argument variants (C02) with a login reply of >= 12 bytes; control_breeze_device: 1,080 request shapes"]
EXPLANATION = ("per operation: exactly one clock read; the first frame is the login frame for this instance's key/id and that clock "
               "value; every later frame carries bytes 8..12 of THIS call's login reply, the same timestamp and the configured id; as "
               "many replies are consumed as frames written; no attribute of the API object, the remote or any module is assigned "
               "(frame condition)")


def interp_for(unit):
    if unit.name.startswith("breeze_") or unit.name == "dep_thermostat_response":
        from .breeze import breeze_interp
        return breeze_interp()
    return interp_with_contracts()


def binding_obligations(ip, ctx, base, run, kind):
    obs = []
    now = run["now"]
    obs.append(Obligation(base + "/exactly_one_clock_read", ctx, now is not None and len(ctx.ghost.clock_reads) <= 2 and
                          len([r for r in ctx.ghost.clock_reads if r[0] == "time.time"]) == 1))
    writes = run["writes"]
    obs.append(Obligation(base + "/login_frame_first", ctx, len(writes) >= 1))
    if now is None or not writes:
        return obs
    ts = sp(ip, "timestamp_of", [now], ctx)
    want_login = sp(ip, "login1_frame", [ts, run["keyb"]], ctx) if kind == 1 else sp(ip, "login2_frame", [ts, run["idb"]], ctx)
    obs.append(Obligation(base + "/frame[0]_is_this_instance_login", ctx, ip.equals(writes[0], want_login, ctx)))
    session = ip.getslice(run["R1"], 8, 12, ctx)
    for j, w in enumerate(writes[1:], 1):
        obs.append(Obligation(base + f"/frame[{j}]/session_of_this_login", ctx, ip.equals(ip.getslice(w, 8, 12, ctx), session, ctx)))
        obs.append(Obligation(base + f"/frame[{j}]/timestamp_of_this_call", ctx, ip.equals(ip.getslice(w, 24, 28, ctx), ts, ctx)))
        obs.append(Obligation(base + f"/frame[{j}]/configured_device_id", ctx, ip.equals(ip.getslice(w, 40, 43, ctx), run["idb"], ctx)))
    nreads = run["reads"] if isinstance(run["reads"], int) else len(run["reads"])
    if run["outcome"][0] == "ret":
        obs.append(Obligation(base + "/one_reply_per_frame", ctx, nreads == len(writes)))
    # however the call ends, no frame is left unanswered on a connection that stays open: the reply would be taken for the
    # answer to the next operation's login and every later session id would be the previous operation's
    # every connection starts with a login: an operation that opens a connection itself must not put a command frame on it first
    opened = [j for j, e in enumerate(ctx.ghost.events) if e[0] == "open_connection"]
    if opened:
        later_writes = [e[1] for e in ctx.ghost.events[opened[-1]:] if e[0] == "write"]
        obs.append(Obligation(base + "/a_connection_the_operation_opens_itself_starts_with_a_login", ctx,
                              not later_writes or ip.equals(later_writes[0], want_login, ctx) is True,
                              note=f"{len(later_writes)} frame(s) written after re-connecting"))
    closed = any(e[0] == "close" for e in ctx.ghost.events)
    obs.append(Obligation(base + "/no_unread_reply_left_on_the_open_connection", ctx, nreads == len(writes) or closed,
                          note=f"{len(writes)} frames written, {nreads} replies read"))
    obs.append(Obligation(base + "/assigns_nothing", ctx, _frame_ok(ctx)[0],
                          note=str([(repr(o), a) for o, a in ctx.ghost.heap_writes][:3])))
    return obs


def units(tier):
    u = {}
    for name, op in ops().items():
        for v in range(op.variants):
            def fn(ip, ctx, op=op, v=v):
                run = run_op(ip, ctx, op, v, ("ge", 12), 0 if op.name in QUERIES else ("ge", 0))
                ctx._run = run
                base = f"{PROP}/{op.name}" + (f"/v{v}" if op.variants > 1 else "")
                obs = binding_obligations(ip, ctx, base, run, getattr(op, "login_kind", op.kind))
                acc = op.accepted(ip, ctx, run["info"])
                if ctx.entails(z3.BoolVal(acc) if isinstance(acc, bool) else acc) and op.name not in QUERIES:
                    obs.append(Obligation(base + "/two_frames", ctx, len(run["writes"]) == 2))
                return obs
            nm = name + (f"_v{v}" if op.variants > 1 else "")
            u[nm] = Unit(nm, PROP, fn, functions=[op.qual(), API + "SwitcherApi._login"], witness=op_witness(PROP, op, v))
    from .deps import contract_units
    u.update(contract_units(PROP))
    from .breeze import breeze_units
    u.update(breeze_units(PROP, "C03"))

    def static(ip, ctx):
        """syntactic facts the induction needs: no global/nonlocal, no module-level mutable object mutated by an operation,
        no class attribute shared by instances"""
        obs = []
        for mn in ("aioswitcher.api", "aioswitcher.api.messages", "aioswitcher.device.tools", "aioswitcher.api.packets"):
            m = P().modules[mn]
            # syntactic sufficient conditions (helper level: a failure makes the induction argument undecided, it is not a violation;
            # actual writes to module-level objects are caught dynamically by the frame obligation of every operation)
            obs.append(Obligation(f"{PROP}/static/{mn}/no_global_or_nonlocal", ctx, not m.has_global_stmt, prop_level=False))
        for cn in ("SwitcherApi", "SwitcherType1Api", "SwitcherType2Api"):
            c = P().modules["aioswitcher.api"].classes[cn]
            obs.append(Obligation(f"{PROP}/static/{cn}/no_class_level_state", ctx, not c.class_attrs, note=str(list(c.class_attrs)), prop_level=False))
        return obs
    u["static"] = Unit("static", PROP, static)

    def canary(ip, ctx):
        run = run_op(ip, ctx, ops()["stop"], 0, ("ge", 12), ("ge", 0))
        if len(run["writes"]) < 2:
            return []
        w = run["writes"][1]
        return [Obligation(PROP + "/_canary/session_is_zero", ctx, ip.equals(ip.getslice(w, 8, 12, ctx), b"\x00\x00\x00\x00", ctx))]
    u["_canary"] = Unit("_canary", PROP, canary)
    return u


QUICK_WITNESSES = 100


def replay_case(o):
    i = o.get("inputs") or {}
    name = o["name"].split("/")
    if "_canary" in o["name"]:
        return {"prop": PROP, "kind": "canary", "inputs": i}
    if name[1].startswith("dep_") or "R1" not in i:
        return None
    op = ops().get(name[1])
    if op is None:
        return None
    return {"prop": PROP, "kind": "op_check", "op": op.method, "api": op.kind, "inputs": i}


def search_cases(o, seed):
    return [{"prop": PROP, "kind": "sequences", "inputs": {"seed": seed, "n": 60}}]


def native_cases(tier, seed):
    return [{"prop": PROP, "kind": "sequences", "inputs": {"seed": seed, "n": 60 if tier == "quick" else 3000}}]
