"""C14 - a schedule's duration is (end - start) modulo 24 hours (DESIGN.md 4/C14)"""
from .common import frame_ok as _frame_ok
import z3

from pyvc.engine import Unit, Obligation, outcome_of, equiv_obligations, concretise
from pyvc.timemodels import TimeStr
from .common import func, sym_outcome

PROP = "C14"
Q = "aioswitcher.schedule.tools.calc_duration"
MIN_OBLIGATIONS = 4
ASSUMPTIONS = ["datetime.strptime('%H:%M') model; datetime comparison / + timedelta / - as integer arithmetic; str(timedelta) model "
               "(all cross-checked natively: quick 5,000 pairs + boundaries, thorough all 1440^2 pairs)"]
ENUMERATED = ["all pairs of valid HH:MM strings: hours, minutes and digit counts are solver variables"]
EXPLANATION = "calc_duration executed from the AST on two abstract valid HH:MM strings; result text must equal spec.duration_spec"


def units(tier):
    def fn(ip, ctx):
        a = TimeStr("start", ctx)
        b = TimeStr("end", ctx)
        ctx.assume(a.valid())
        ctx.assume(b.valid())
        ctx.inputs["start"] = a
        ctx.inputs["end"] = b
        ob = outcome_of(lambda: ip.call_function(func(Q), [a, b], {}, ctx))
        ctx._code_outcome = ob
        os_ = outcome_of(lambda: ip.call_function(func("spec.duration_spec"), [a, b], {}, ctx))
        return equiv_obligations(ip, ctx, f"{PROP}/calc_duration", ob, os_)

    def wit(ctx, model):
        return {"case": {"prop": PROP, "kind": "pair", "inputs": {k: concretise(v, model) for k, v in ctx.inputs.items()}},
                "expect": sym_outcome(ctx._code_outcome, model, ctx)}

    def canary(ip, ctx):
        a = TimeStr("start", ctx)
        b = TimeStr("end", ctx)
        ctx.assume(a.valid())
        ctx.assume(b.valid())
        ctx.inputs["start"] = a
        ctx.inputs["end"] = b
        ob = outcome_of(lambda: ip.call_function(func(Q), [a, b], {}, ctx))
        return [Obligation(PROP + "/_canary/never_zero", ctx, z3.Not(ip.equals(ob[1], "0:00:00", ctx)))]
    def sched(ip, ctx):
        # the duration a schedule object reports (filled at construction) is that of ITS OWN start and end
        from pyvc.sym import PySet
        from .common import cls
        a = TimeStr("start", ctx)
        b = TimeStr("end", ctx)
        ctx.assume(a.valid())
        ctx.assume(b.valid())
        ctx.inputs["start"] = a
        ctx.inputs["end"] = b
        c = cls("aioswitcher.schedule.parser.SwitcherSchedule")
        ob = outcome_of(lambda: ip.instantiate(c, ["3", False, PySet(), a, b], {}, ctx))
        want = ip.call_function(func("spec.duration_spec"), [a, b], {}, ctx)
        obs = [Obligation(f"{PROP}/SwitcherSchedule/constructs", ctx, ob[0] == "ret")]
        # the reported duration (and the display text derived with it) is always computed from the object's own times: neither can be
        # handed to the constructor (dataclasses.replace / a copy built from asdict would otherwise carry a stale value over)
        init_fields = [f[0] for f in c.dataclass_fields() if f[3]]
        obs.append(Obligation(f"{PROP}/SwitcherSchedule/duration_and_display_are_not_constructor_parameters", ctx,
                              "duration" not in init_fields and "display" not in init_fields, note=str(init_fields)))
        if ob[0] == "ret":
            obs.append(Obligation(f"{PROP}/SwitcherSchedule/duration_is_of_its_own_times", ctx, ip.equals(ob[1].attrs.get("duration"), want, ctx)))
            obs.append(Obligation(f"{PROP}/SwitcherSchedule/construction_assigns_nothing_else", ctx,
                                  _frame_ok(ctx)[0]))
        return obs
    def parsed(ip, ctx):
        # a schedule listed by a device: its reported duration is that of its own reported start and end
        from . import c10
        from .common import sym_bytes
        k = 2
        r = sym_bytes(ctx, "r", 49 + 16 * k)
        ctx.assume(ip.truth(c10.sp(ip, "wf_schedules_reply", [r, k], ctx), ctx))
        ob = outcome_of(lambda: ip.call_function(func(c10.SP + "get_schedules"), [r], {}, ctx))
        obs = [Obligation(f"{PROP}/listed_schedule/parses", ctx, ob[0] == "ret" and getattr(ob[1], "deferred", None) is not None
                          and len(ob[1].deferred.items) == k)]
        if obs[0].goal:
            for j, (o, kept) in enumerate(ob[1].deferred.items):
                want = ip.call_function(func("spec.duration_spec"), [o.attrs.get("start_time"), o.attrs.get("end_time")], {}, ctx)
                obs.append(Obligation(f"{PROP}/listed_schedule/record[{j}]/duration_is_of_its_own_times", ctx,
                                      ip.equals(o.attrs.get("duration"), want, ctx)))
        return obs
    return {"calc_duration": Unit("calc_duration", PROP, fn, functions=[Q], witness=wit),
            "listed_schedule": Unit("listed_schedule", PROP, parsed, functions=["aioswitcher.schedule.parser.get_schedules",
                                                                               "aioswitcher.schedule.parser.SwitcherSchedule.__post_init__"]),
            "schedule_duration": Unit("schedule_duration", PROP, sched, functions=["aioswitcher.schedule.parser.SwitcherSchedule.__post_init__"]),
            "_canary": Unit("_canary", PROP, canary)}


def interp_for(unit):
    from pyvc.engine import make_interp
    if unit.name == "listed_schedule":
        from . import c10
        from pyvc import schedmodel
        c = c10.contracts()
        c.pop("aioswitcher.schedule.tools.calc_duration", None)       # the duration computation itself is executed from its body here
        ip = make_interp(contracts=c)
        schedmodel.install(ip)
        return ip
    return make_interp()


def replay_case(o):
    i = o.get("inputs") or {}
    if "start" not in i:
        return None
    return {"prop": PROP, "kind": "canary" if "_canary" in o["name"] else "pair", "inputs": i}


def search_cases(o, seed):
    return [{"prop": PROP, "kind": "sweep", "inputs": {"seed": seed, "n": 20000}}, {"prop": PROP, "kind": "schedules", "inputs": {"seed": seed, "n": 2000}}]


def native_cases(tier, seed):
    if tier == "thorough":
        return [{"prop": PROP, "kind": "all_pairs", "inputs": {}}, {"prop": PROP, "kind": "schedules", "inputs": {"seed": seed, "n": 20000}}]
    return [{"prop": PROP, "kind": "sweep", "inputs": {"seed": seed, "n": 5000}},
            {"prop": PROP, "kind": "schedules", "inputs": {"seed": seed, "n": 300}},
            {"prop": PROP, "kind": "listed", "inputs": {"seed": seed, "n": 300}}]
