"""C15 - the IR command built is the stored code that best matches the request (DESIGN.md 4/C15)"""
from .common import frame_ok as _frame_ok
import itertools
import z3

from pyvc.sym import Seq, Elems, Obj, PyDict, PySet, PyList, simp, zi
from pyvc.engine import Unit, Obligation, outcome_of, concretise, make_interp
from pyvc.irmodel import IRMap
from pyvc import irmodel
from .common import func, cls, P, sym_int, real_enum, equiv_unit
from .deps import hex_message

PROP = "C15"
R = "aioswitcher.api.remotes."
MIN_OBLIGATIONS = 400
ASSUMPTIONS = [
    "IR code set: uninterpreted membership/value functions over keys of the shape literal + [decimal temperature] + literal "
    "(every set, sparse or dense); Para and HexCode are non-empty ASCII texts of at most 1000 characters each",
    "remote state (min/max temperature, toggle flag, supported modes, separate-swing flag) is symbolic/enumerated: the obligations "
    "hold for every remote object, however it was constructed",
    "capabilities: _resolve_capabilities is proved as a fold by induction (base: empty list; step: one loop iteration from every "
    "reachable abstract state), with an IR key abstracted by what the function observes of it (first two characters, whether "
    "characters 2..4 are digits and their value, the captured fan token in none/f0..f3, whether it contains 'd1'); keys with other "
    "fan digits (the constructor raises KeyError on them) are outside the claim",
    "get_remote: open() gives a file object that the with-block closes on every way out, json.load(file) gives the database "
    "mapping (environment contract; what the file holds is arbitrary: this id present or absent); the per-id dictionary is seen "
    "from the requested id only (pre-state: cached or not; other ids may or may not be cached); SwitcherBreezeRemote(entry) by "
    "contract = a fresh remote of that entry (its capabilities: units capabilities_*); cache RI (the entry under an id was built "
    "from the database entry of that id) is combined over calls by a meta-argument (DESIGN.md 9.9)",
]
BOUNDED_PARTS = ["get_remote: the real file / json layer is exercised natively only (two database files sharing ids, interleaved and "
                 "repeated requests, unknown ids)",
                 "the capability fold is also exercised natively on generated IR sets (quick 300, thorough 10,000)"]
ENUMERATED = ["toggle x state x mode x fan x swing x previous state = 480 request shapes (complete)", "unsupported mode: 5 modes x 16 "
              "supported subsets", "temperature, min, max: solver variables"]
EXPLANATION = ("build_command / build_swing_command / SwitcherBreezeCommand executed from the AST on a remote whose IR map is "
               "uninterpreted; whenever the specification names a key (first existing candidate) the command must carry exactly that "
               "entry's 'Para|HexCode' behind four zero bytes, with the payload's byte length as LE16")


def E(n):
    return real_enum("aioswitcher.device", n)


class KeyView:
    """a dict seen from the one key under consideration (the requested remote id): membership / item access give the pre-state
    entry or the last store; stores are logged; any access under another key, iteration, deletion ... is out of subset"""
    def __init__(self, key, current):
        self.key, self.current, self.stores = key, current, []


class RemoteCtorContract:
    """SwitcherBreezeRemote(ir_set) -> a fresh remote built from exactly that set (what the constructor makes of a set is the
    capabilities lemma of this property); used by the get_remote unit only"""
    qualname = R + "SwitcherBreezeRemote"

    def apply(self, ip, c, args, kwargs, ctx):
        ctx.used_contracts.add(self.qualname + "(ir_set) -> fresh remote of that set (capabilities: units capabilities_*)")
        o = Obj(c, {"$built_from": args[0] if len(args) == 1 and not kwargs else None})
        _gr_events(ctx).append(("construct", o))
        return o


def _gr_events(ctx):
    ev = getattr(ctx, "gr_events", None)
    if ev is None:
        ev = []
        ctx.gr_events = ev
    return ev


def keyview_method(ip, o, name, args, kw, ctx):
    from pyvc.interp import Unsupported, PyExc, MethodRef
    from pyvc.sym import ExcVal
    if not isinstance(o, KeyView):
        return NotImplemented
    if name == "__getattr__":
        if args[0] in ("get",):
            return MethodRef(o, args[0])
        raise Unsupported(f"{args[0]} on the per-id dictionary")
    if name in ("__contains__", "__getitem__", "get", "__setitem__") and args[0] is not o.key:
        raise Unsupported("access to another id's entry")
    cur = o.stores[-1][1] if o.stores else o.current
    if name == "__contains__":
        return cur is not None
    if name == "get":
        return cur if cur is not None else (args[1] if len(args) > 1 else None)
    if name == "__getitem__":
        if cur is None:
            raise PyExc(ExcVal("KeyError", ("id",)))
        return cur
    if name == "__setitem__":
        o.stores.append((args[0], args[1]))
        if getattr(o, "log", None) is not None:
            o.log.append(("store", o, args[1]))
        return None
    if name in ("__bool__", "__len__"):
        # the dictionary may hold other ids: non-empty when this id is present, otherwise empty or not (both explored)
        if cur is not None or ctx.fork(2):
            return True if name == "__bool__" else ctx.fresh_int("cache_size", 1, 1000)
        return False if name == "__bool__" else 0
    raise Unsupported(f"{name} on the per-id dictionary")


def interp_for(unit):
    if unit.name == "get_remote":
        ip = make_interp(contracts={RemoteCtorContract.qualname: RemoteCtorContract()})
        ip.method_models.insert(0, keyview_method)
        return ip
    ip = make_interp(contracts={})
    irmodel.install(ip)
    from pyvc import capmodel
    capmodel.install(ip)
    return ip


def make_remote(ip, ctx, toggle, supported, sep=False):
    W = IRMap("W")
    mint = sym_int(ctx, "min_temp", -100, 100)
    maxt = sym_int(ctx, "max_temp", -100, 100)
    feats = PyDict({m: PyDict({"swing": False, "fan_levels": PySet(), "temperature_control": False}) for m in supported})
    # the object is created by the real constructor on an empty IR set (so that every attribute the current source
    # initialises exists), then its IR data and capabilities are replaced by the symbolic / uninterpreted ones
    r = ip.instantiate(cls(R + "SwitcherBreezeRemote"),
                       [PyDict({"IRSetID": "ELEC7022" if sep else "REMOTE01", "OnOffType": 1 if toggle else 0, "IRWaveList": PyList([])})], {}, ctx)
    r.attrs.update({"_min_temp": mint, "_max_temp": maxt, "_on_off_type": toggle, "_ir_wave_map": W,
                    "_modes_features": feats, "_separated_swing_command": sep})
    from pyvc.interp import mark_preexisting
    mark_preexisting(r)
    ctx.ghost.heap_writes.clear()
    ctx.inputs["toggle"] = toggle
    return r, W, mint, maxt


def command_obligations(ip, ctx, base, ob, W, key):
    """the built command must carry W[key]; building it must not leave anything behind on the remote (a remembered command
    would make a later call with another previous state wrong)"""
    obs = [Obligation(base + "/returns_command", ctx, ob[0] == "ret", note=str(ob[1]) if ob[0] == "exc" else ""),
           Obligation(base + "/assigns_nothing", ctx, _frame_ok(ctx)[0],
                      note=str([(type(o).__name__, a) for o, a in ctx.ghost.heap_writes][:2]))]
    if ob[0] != "ret":
        return obs
    e = W.entry(key, ctx)
    para = W.text("Para", e.sid, e.t, ctx)
    hexc = W.text("HexCode", e.sid, e.t, ctx)
    payload = ip.call_function(func("spec.command_payload"), [para, hexc], {}, ctx)
    want_cmd = ip.call_function(func("spec.hexs"), [payload], {}, ctx)
    n = ip.builtins["len"].fn(ip, [payload], {}, ctx)
    want_len = ip.call_function(func("spec.hexs"), [ip.call_function(func("spec.le16"), [n], {}, ctx)], {}, ctx)
    cmd = ob[1]
    obs.append(Obligation(base + "/payload_is_the_stored_code", ctx, ip.equals(cmd.attrs.get("command"), want_cmd, ctx)))
    obs.append(Obligation(base + "/length_is_le16_of_payload", ctx, ip.equals(cmd.attrs.get("length"), want_len, ctx)))
    return obs


def units(tier):
    u = {}
    State, Mode, Fan, Swing = E("DeviceState"), E("ThermostatMode"), E("ThermostatFanLevel"), E("ThermostatSwing")
    shapes = list(itertools.product([False, True], list(State), list(Fan), list(Swing), [None] + list(State), [False, True]))
    for mode in Mode:
        for chunk in range(4):
            part = shapes[chunk::4]

            def fn(ip, ctx, mode=mode, part=part):
                toggle, state, fan, swing, prev, sep = part[ctx.fork(len(part))]
                remote, W, mint, maxt = make_remote(ip, ctx, toggle, list(Mode), sep=sep)
                ctx.inputs["separate_swing_id"] = sep
                t = sym_int(ctx, "target", -1000, 1000)
                ctx.inputs.update({"state": state, "mode": mode, "fan": fan, "swing": swing, "prev": prev})
                f = func(R + "SwitcherBreezeRemote.build_command")
                key = ip.call_function(func("spec.ir_key_spec"),
                                       [W, toggle, mint, maxt, state is State.ON, mode.name, t, fan.name, swing is Swing.ON,
                                        prev is not None, prev is State.ON], {}, ctx)
                if key is None:
                    return []          # no candidate key exists: the statement is silent
                ctx.assume(W.has(key, ctx))
                ctx._key = key
                ob = outcome_of(lambda: ip.call_function(f, [remote, state, mode, t, fan, swing, prev], {}, ctx))
                base = f"{PROP}/build_command/{mode.name}/" + ("toggle" if toggle else "plain") + \
                    f"_{state.name}_{fan.name}_swing{swing.name}_prev{prev.name if prev else 'None'}" + ("_separate_swing_id" if sep else "")
                return command_obligations(ip, ctx, base, ob, W, key)
            u[f"build_{mode.name}_{chunk}"] = Unit(f"build_{mode.name}_{chunk}", PROP, fn,
                                                  functions=[R + "SwitcherBreezeRemote.build_command", R + "SwitcherBreezeRemote._lookup_key_in_irset",
                                                             R + "SwitcherBreezeCommand.__init__"], params={"may_be_empty": True})

    def unsupported(ip, ctx, mode_index):
        modes = list(Mode)
        obs = []
        k = mode_index * 16 + ctx.fork(16)
        mode = modes[k // 16]
        others = [m for m in modes if m is not mode]
        sup = [m for i, m in enumerate(others) if (k % 16) >> i & 1]
        # the refusal does not depend on anything else in the request: every remote kind x power x previous power,
        # two fan/swing combinations
        req = list(itertools.product([False, True], [False, True], list(State), [None] + list(State), [(Fan.LOW, Swing.OFF), (Fan.HIGH, Swing.ON)]))
        toggle, sep, state, prev, (fan, swing) = req[ctx.fork(len(req))]
        remote, W, mint, maxt = make_remote(ip, ctx, toggle, sup, sep=sep)
        t = sym_int(ctx, "target", -1000, 1000)
        ctx.inputs.update({"state": state, "mode": mode, "fan": fan, "swing": swing, "prev": prev, "supported": sup, "separate_swing_id": sep})
        ob = outcome_of(lambda: ip.call_function(func(R + "SwitcherBreezeRemote.build_command"),
                                                 [remote, state, mode, t, fan, swing, prev], {}, ctx))
        base = f"{PROP}/unsupported_mode/{mode.name}/supported_" + ("".join(m.name[0] for m in sup) or "none") + \
            f"/{'toggle' if toggle else 'plain'}{'_sep' if sep else ''}_{state.name}_prev{prev.name if prev else 'None'}_{fan.name}"
        ok = ob[0] == "exc" and ob[1].cls == "RuntimeError"
        obs.append(Obligation(base + "/raises_RuntimeError", ctx, ok))
        if ok:
            msg = ob[1].args[0] if ob[1].args else ""
            names = isinstance(msg, str) and all(m.display in msg for m in sup)
            obs.append(Obligation(base + "/message_names_supported_modes", ctx, bool(names)))
        return obs
    for mi, m in enumerate(Mode):
        u[f"unsupported_mode_{m.name}"] = Unit(f"unsupported_mode_{m.name}", PROP, lambda ip, ctx, mi=mi: unsupported(ip, ctx, mi),
                                               functions=[R + "SwitcherBreezeRemote.build_command"])

    def swingcmd(ip, ctx):
        swing = list(Swing)[ctx.fork(2)]
        remote, W, mint, maxt = make_remote(ip, ctx, False, list(Mode), sep=True)
        key = ip.call_function(func("spec.swing_key_spec"), [swing is Swing.ON], {}, ctx)
        present = ctx.branch(W.has(key, ctx))
        ob = outcome_of(lambda: ip.call_function(func(R + "SwitcherBreezeRemote.build_swing_command"), [remote, swing], {}, ctx))
        base = f"{PROP}/build_swing_command/{swing.name}/" + ("present" if present else "absent")
        if present:
            return command_obligations(ip, ctx, base, ob, W, key)
        return [Obligation(base + "/raises_RuntimeError", ctx, ob[0] == "exc" and ob[1].cls == "RuntimeError")]
    u["build_swing_command"] = Unit("build_swing_command", PROP, swingcmd, functions=[R + "SwitcherBreezeRemote.build_swing_command"])

    def cmdlen(ip, ctx):
        m = hex_message(ctx)
        ctx.assume(m.length() <= 4000)
        ob = outcome_of(lambda: ip.instantiate(cls(R + "SwitcherBreezeCommand"), [m], {}, ctx))
        base = f"{PROP}/SwitcherBreezeCommand"
        obs = [Obligation(base + "/constructs", ctx, ob[0] == "ret")]
        if ob[0] == "ret":
            n = simp(zi(m.length()) / 2)
            want = ip.call_function(func("spec.hexs"), [ip.call_function(func("spec.le16"), [n], {}, ctx)], {}, ctx)
            obs.append(Obligation(base + "/command_kept", ctx, ip.equals(ob[1].attrs.get("command"), m, ctx)))
            obs.append(Obligation(base + "/length_is_le16_of_byte_count", ctx, ip.equals(ob[1].attrs.get("length"), want, ctx)))
        return obs
    u["command_length"] = Unit("command_length", PROP, cmdlen, functions=[R + "SwitcherBreezeCommand.__init__", R + "SwitcherBreezeCommand._get_command_length"])

    # ---- capabilities: _resolve_capabilities is a fold over the wave list; proved by induction -------------------------------
    #   base: the state a constructor call on an empty list leaves;  step: one loop iteration from an ARBITRARY reachable state
    from pyvc.capmodel import AbsKey, StoreLog, OneStep, LoopStepDone
    from pyvc.interp import mark_preexisting
    modes = list(Mode)
    CODE = {"aa": Mode.AUTO, "ad": Mode.DRY, "aw": Mode.FAN, "ar": Mode.COOL, "ah": Mode.HEAT}   # the protocol's mode codes (statement of C15)
    prefixes = list(CODE)
    RC = R + "SwitcherBreezeRemote._resolve_capabilities"

    def cap_base(ip, ctx):
        obs = []
        for rid, sep in (("ELEC7022", True), ("ZM079055", True), ("ZM079065", True), ("ZM079049", True), ("ELEC7001", False), ("", False)):
            for onoff, toggle in ((1, True), (0, False), (2, False)):
                r = ip.instantiate(cls(R + "SwitcherBreezeRemote"), [PyDict({"IRSetID": rid, "OnOffType": onoff, "IRWaveList": PyList([])})], {}, ctx)
                base = f"{PROP}/capabilities/empty_set/{rid or 'noid'}_onoff{onoff}"
                obs.append(Obligation(base + "/no_modes_no_range", ctx, ip.getattr(r, "supported_modes", ctx).items == [] and
                                      ip.getattr(r, "min_temperature", ctx) == 100 and ip.getattr(r, "max_temperature", ctx) == -100))
                obs.append(Obligation(base + "/toggle_flag_is_OnOffType_1", ctx, ip.getattr(r, "on_off_type", ctx) is toggle))
                obs.append(Obligation(base + "/separate_swing_flag_is_membership_of_the_special_ids", ctx, ip.getattr(r, "separated_swing_command", ctx) is sep))
                obs.append(Obligation(base + "/remote_id", ctx, ip.getattr(r, "remote_id", ctx) == rid))
                obs.append(Obligation(base + "/empty_wave_map", ctx, isinstance(r.attrs.get("_ir_wave_map"), PyDict) and not r.attrs["_ir_wave_map"].d))
        return obs
    u["capabilities_base"] = Unit("capabilities_base", PROP, cap_base, functions=[R + "SwitcherBreezeRemote.__init__", RC])

    for subset in range(32):
        def cap_step(ip, ctx, subset=subset):
            present = [m for i, m in enumerate(modes) if subset >> i & 1]
            carried = ([None] + present)[ctx.fork(len(present) + 1)]        # the loop's local `mode` from the previous wave
            sep = bool(ctx.fork(2))
            toggle = bool(ctx.fork(2)) if subset == 0 else False      # the loop never looks at the toggle flag
            r = ip.instantiate(cls(R + "SwitcherBreezeRemote"), [PyDict({"IRSetID": "ELEC7022" if sep else "REMOTE01", "OnOffType": 1 if toggle else 0,
                                                                         "IRWaveList": PyList([])})], {}, ctx)
            mn = sym_int(ctx, "min_before", -100, 100)
            mx = sym_int(ctx, "max_before", -100, 100)
            feats = PyDict({m: PyDict({"swing": z3.Bool(f"swing_{m.name}"), "fan_levels": PySet(), "temperature_control": z3.Bool(f"tc_{m.name}")})
                            for m in present})
            log = StoreLog()
            r.attrs.update({"_min_temp": mn, "_max_temp": mx, "_modes_features": feats, "_ir_wave_map": log})
            key = AbsKey("key", ctx, prefixes)
            para = Seq('str', [])
            wave = PyDict({"Key": key, "Para": "P-of-this-wave", "HexCode": "H-of-this-wave"})
            ir_set = PyDict({"IRSetID": "x", "OnOffType": 0, "IRWaveList": OneStep(wave, {"mode": carried})})
            try:
                ip.call_function(func(RC), [r, ir_set], {}, ctx)
                return [Obligation(f"{PROP}/capabilities/step/loop_reached", ctx, False)]
            except LoopStepDone:
                pass
            base = f"{PROP}/capabilities/step/modes_{''.join(m.name[0] for m in present) or 'none'}/carried_{carried.name if carried else 'None'}"
            k = ctx.choose([key.pfx == i for i in range(len(prefixes) + 1)])
            want_modes = set(present) | ({CODE[prefixes[k]]} if k < len(prefixes) else set())
            got_modes = set(r.attrs["_modes_features"].d.keys())
            want_mn = simp(z3.If(z3.And(key.tdig, key.tval < mn), key.tval, mn))
            want_mx = simp(z3.If(z3.And(key.tdig, key.tval > mx), key.tval, mx))
            obs = [Obligation(base + "/modes_are_previous_plus_the_key_prefix_mode", ctx, got_modes == want_modes, note=f"{[m.name for m in got_modes]}"),
                   Obligation(base + "/min_is_folded_over_two_digit_fields", ctx, ip.equals(r.attrs["_min_temp"], want_mn, ctx)),
                   Obligation(base + "/max_is_folded_over_two_digit_fields", ctx, ip.equals(r.attrs["_max_temp"], want_mx, ctx)),
                   Obligation(base + "/flags_unchanged", ctx, r.attrs.get("_on_off_type") is toggle and r.attrs.get("_separated_swing_command") is sep),
                   Obligation(base + "/wave_stored_under_its_key_with_its_codes", ctx,
                              len(log.stores) == 1 and log.stores[0][0] is key and isinstance(log.stores[0][1], PyDict) and
                              log.stores[0][1].d == {"Para": "P-of-this-wave", "HexCode": "H-of-this-wave"})]
            return obs
        u[f"capabilities_step_{subset}"] = Unit(f"capabilities_step_{subset}", PROP, cap_step, functions=[RC], max_paths=200000)

    # ---- get_remote: per-id cache in front of the JSON database file (environment: open / json.load; constructor by contract)
    def get_remote(ip, ctx):
        from pyvc.interp import EnvObj, Builtin, Unsupported
        from pyvc.sym import array_gen, char_fact
        MG = R + "SwitcherBreezeRemoteManager"
        rid = Seq('str', [array_gen("remote_id", sym_int(ctx, "remote_id_len", 0, 16), (), char_fact)])
        path = Seq('str', [array_gen("db_path", sym_int(ctx, "db_path_len", 1, 64), (), char_fact)])
        ev = _gr_events(ctx)

        def open_model(ip_, a, k, c):
            f = EnvObj("file", path=a[0] if a else None, mode=(a[1] if len(a) > 1 else k.get("mode", "r")), closed=False)
            ev.append(("open", f))
            return f
        ip.builtins["open"] = Builtin("open", open_model)
        mgr = ip.instantiate(cls(MG), [path], {}, ctx)
        fresh = mgr.attrs.get("_remotes_db")
        obs = [Obligation(f"{PROP}/get_remote/new_manager_has_an_empty_cache_and_keeps_its_path", ctx,
                          isinstance(fresh, PyDict) and not fresh.d and mgr.attrs.get("_remotes_db_fpath") is path and not ev)]
        cached = bool(ctx.fork(2))
        in_db = True if cached else bool(ctx.fork(2))
        old = Obj(cls(R + "SwitcherBreezeRemote"), {"$built_from": "an earlier call"})
        view = KeyView(rid, old if cached else None)
        view.log = ev
        mgr.attrs["_remotes_db"] = view
        entry = PyDict({"IRSetID": "the entry of this id"})
        db = KeyView(rid, entry if in_db else None)

        def load_model(ip_, a, k, c):
            if not (len(a) == 1 and isinstance(a[0], EnvObj) and a[0].kind == "file") or k:
                raise Unsupported("json.load on something else than the opened file")
            ev.append(("load", a[0], a[0].state["closed"]))
            return db
        ip.ext_models["json.load"] = Builtin("load", load_model)
        ob = outcome_of(lambda: ip.call_function(func(MG + ".get_remote"), [mgr, rid], {}, ctx))
        if ctx.ghost.module_writes:
            # state shared by all managers (a module-level cache): one call from the initial module state decides nothing
            raise Unsupported("get_remote writes module-level state: " + str(ctx.ghost.module_writes[:1]))
        base = f"{PROP}/get_remote/" + ("cached" if cached else "first_request_" + ("id_in_database" if in_db else "id_not_in_database"))
        frame = mgr.attrs.get("_remotes_db") is view and mgr.attrs.get("_remotes_db_fpath") is path and not db.stores
        obs.append(Obligation(base + "/manager_fields_and_database_untouched", ctx, frame))
        opens = [e for e in ev if e[0] == "open"]
        loads = [e for e in ev if e[0] == "load"]
        built = [e[1] for e in ev if e[0] == "construct"]
        # RI of the cache (kept by the store clause, established by the empty cache): the entry under an id was built from the
        # database entry of that id.  The result must be such a remote: the cached one, or one built in this call.
        obs.append(Obligation(base + "/every_file_opened_is_the_configured_one_read_only_and_closed_afterwards", ctx,
                              all(f[1].state["path"] is path and f[1].state["mode"] in ("r", "rt", "rb") and f[1].state["closed"] is True for f in opens)
                              and all(not e[2] for e in loads)))
        obs.append(Obligation(base + "/every_remote_built_is_built_from_this_ids_entry", ctx, all(o.attrs.get("$built_from") is entry for o in built)))
        if cached or in_db:
            good = ([old] if cached else []) + built
            obs += [Obligation(base + "/returns_this_ids_remote", ctx, ob[0] == "ret" and any(ob[1] is g for g in good),
                               note=str(ob[1]) if ob[0] == "exc" else ""),
                    Obligation(base + "/what_is_cached_under_this_id_is_the_remote_returned", ctx,
                               ob[0] == "ret" and all(k is rid and v is ob[1] for k, v in view.stores))]
        else:
            obs += [Obligation(base + "/raises_KeyError", ctx, ob[0] == "exc" and ob[1].cls == "KeyError", note=str(ob[1])),
                    Obligation(base + "/nothing_built_nothing_cached", ctx, not built and not view.stores)]
        if cached:
            obs.append(Obligation(base + "/a_cached_remote_needs_no_second_file", ctx, len(opens) <= 1))
        return obs
    u["get_remote"] = Unit("get_remote", PROP, get_remote, functions=[R + "SwitcherBreezeRemoteManager.__init__", R + "SwitcherBreezeRemoteManager.get_remote"])

    def canary(ip, ctx):
        remote, W, mint, maxt = make_remote(ip, ctx, False, list(Mode))
        t = sym_int(ctx, "target", -1000, 1000)
        ctx.assume(W.has("off", ctx))
        ob = outcome_of(lambda: ip.call_function(func(R + "SwitcherBreezeRemote.build_command"),
                                                 [remote, State.OFF, Mode.COOL, t, Fan.LOW, Swing.OFF, None], {}, ctx))
        return [Obligation(PROP + "/_canary/off_command_is_empty", ctx, ip.equals(ob[1].attrs["command"], "00000000", ctx))]
    u["_canary"] = Unit("_canary", PROP, canary)
    return u


def replay_case(o):
    if "_canary" in o["name"]:
        return {"prop": PROP, "kind": "canary", "inputs": {}}
    return None       # abstract IR maps do not concretise; the directed search generates concrete sets


def search_cases(o, seed):
    return [{"prop": PROP, "kind": "sweep", "inputs": {"seed": seed, "sets": 150, "requests": 200}}]


def native_cases(tier, seed):
    q = tier == "quick"
    return [{"prop": PROP, "kind": "sweep", "inputs": {"seed": seed, "sets": 300 if q else 10000, "requests": 100 if q else 100}},
            {"prop": PROP, "kind": "manager", "inputs": {"seed": seed}}]
