"""C15 - the IR command built is the stored code that best matches the request (DESIGN.md 4/C15)"""
import itertools
import z3

from pyvc.sym import Seq, Elems, Obj, PyDict, PySet, PyList, simp, zi
from pyvc.engine import Unit, Obligation, outcome_of, concretise, make_interp
from pyvc.irmodel import IRMap
from pyvc import irmodel
from .common import func, cls, P, sym_int, real_enum, equiv_unit
from .deps import hex_message

PROP = "C15"
R = "aioswitcher.api.remotes."
MIN_OBLIGATIONS = 400
ASSUMPTIONS = [
    "IR code set: uninterpreted membership/value functions over keys of the shape literal + [decimal temperature] + literal "
    "(every set, sparse or dense); Para and HexCode are non-empty ASCII texts of at most 1000 characters each",
    "remote state (min/max temperature, toggle flag, supported modes, separate-swing flag) is symbolic/enumerated: the obligations "
    "hold for every remote object, however it was constructed",
    "capabilities (_resolve_capabilities, a loop over the wave list) and get_remote (file + json) are checked by the bounded native "
    "stand-in only",
]
BOUNDED_PARTS = ["_resolve_capabilities / reported capabilities: generated IR sets (quick 300, thorough 10,000) on the real class against "
                 "the fold specification; get_remote caching: native"]
ENUMERATED = ["toggle x state x mode x fan x swing x previous state = 480 request shapes (complete)", "unsupported mode: 5 modes x 16 "
              "supported subsets", "temperature, min, max: solver variables"]
EXPLANATION = ("build_command / build_swing_command / SwitcherBreezeCommand executed from the AST on a remote whose IR map is "
               "uninterpreted; whenever the specification names a key (first existing candidate) the command must carry exactly that "
               "entry's 'Para|HexCode' behind four zero bytes, with the payload's byte length as LE16")


def E(n):
    return real_enum("aioswitcher.device", n)


def interp_for(unit):
    ip = make_interp(contracts={})
    irmodel.install(ip)
    return ip


def make_remote(ip, ctx, toggle, supported, sep=False):
    W = IRMap("W")
    mint = sym_int(ctx, "min_temp", -100, 100)
    maxt = sym_int(ctx, "max_temp", -100, 100)
    feats = PyDict({m: PyDict({"swing": False, "fan_levels": PySet(), "temperature_control": False}) for m in supported})
    # the object is created by the real constructor on an empty IR set (so that every attribute the current source
    # initialises exists), then its IR data and capabilities are replaced by the symbolic / uninterpreted ones
    r = ip.instantiate(cls(R + "SwitcherBreezeRemote"),
                       [PyDict({"IRSetID": "ELEC7022" if sep else "REMOTE01", "OnOffType": 1 if toggle else 0, "IRWaveList": PyList([])})], {}, ctx)
    r.attrs.update({"_min_temp": mint, "_max_temp": maxt, "_on_off_type": toggle, "_ir_wave_map": W,
                    "_modes_features": feats, "_separated_swing_command": sep})
    from pyvc.interp import mark_preexisting
    mark_preexisting(r)
    ctx.ghost.heap_writes.clear()
    ctx.inputs["toggle"] = toggle
    return r, W, mint, maxt


def command_obligations(ip, ctx, base, ob, W, key):
    """the built command must carry W[key]; building it must not leave anything behind on the remote (a remembered command
    would make a later call with another previous state wrong)"""
    obs = [Obligation(base + "/returns_command", ctx, ob[0] == "ret", note=str(ob[1]) if ob[0] == "exc" else ""),
           Obligation(base + "/assigns_nothing", ctx, not ctx.ghost.heap_writes and not ctx.ghost.module_writes,
                      note=str([(type(o).__name__, a) for o, a in ctx.ghost.heap_writes][:2]))]
    if ob[0] != "ret":
        return obs
    e = W.entry(key, ctx)
    para = W.text("Para", e.sid, e.t, ctx)
    hexc = W.text("HexCode", e.sid, e.t, ctx)
    payload = ip.call_function(func("spec.command_payload"), [para, hexc], {}, ctx)
    want_cmd = ip.call_function(func("spec.hexs"), [payload], {}, ctx)
    n = ip.builtins["len"].fn(ip, [payload], {}, ctx)
    want_len = ip.call_function(func("spec.hexs"), [ip.call_function(func("spec.le16"), [n], {}, ctx)], {}, ctx)
    cmd = ob[1]
    obs.append(Obligation(base + "/payload_is_the_stored_code", ctx, ip.equals(cmd.attrs.get("command"), want_cmd, ctx)))
    obs.append(Obligation(base + "/length_is_le16_of_payload", ctx, ip.equals(cmd.attrs.get("length"), want_len, ctx)))
    return obs


def units(tier):
    u = {}
    State, Mode, Fan, Swing = E("DeviceState"), E("ThermostatMode"), E("ThermostatFanLevel"), E("ThermostatSwing")
    shapes = list(itertools.product([False, True], list(State), list(Fan), list(Swing), [None] + list(State)))
    for mode in Mode:
        for chunk in range(4):
            part = shapes[chunk::4]

            def fn(ip, ctx, mode=mode, part=part):
                toggle, state, fan, swing, prev = part[ctx.fork(len(part))]
                remote, W, mint, maxt = make_remote(ip, ctx, toggle, list(Mode))
                t = sym_int(ctx, "target", -1000, 1000)
                ctx.inputs.update({"state": state, "mode": mode, "fan": fan, "swing": swing, "prev": prev})
                f = func(R + "SwitcherBreezeRemote.build_command")
                key = ip.call_function(func("spec.ir_key_spec"),
                                       [W, toggle, mint, maxt, state is State.ON, mode.name, t, fan.name, swing is Swing.ON,
                                        prev is not None, prev is State.ON], {}, ctx)
                if key is None:
                    return []          # no candidate key exists: the statement is silent
                ctx.assume(W.has(key, ctx))
                ctx._key = key
                ob = outcome_of(lambda: ip.call_function(f, [remote, state, mode, t, fan, swing, prev], {}, ctx))
                base = f"{PROP}/build_command/{mode.name}/" + ("toggle" if toggle else "plain") + \
                    f"_{state.name}_{fan.name}_swing{swing.name}_prev{prev.name if prev else 'None'}"
                return command_obligations(ip, ctx, base, ob, W, key)
            u[f"build_{mode.name}_{chunk}"] = Unit(f"build_{mode.name}_{chunk}", PROP, fn,
                                                  functions=[R + "SwitcherBreezeRemote.build_command", R + "SwitcherBreezeRemote._lookup_key_in_irset",
                                                             R + "SwitcherBreezeCommand.__init__"], params={"may_be_empty": True})

    def unsupported(ip, ctx):
        modes = list(Mode)
        obs = []
        k = ctx.fork(5 * 16)
        mode = modes[k // 16]
        others = [m for m in modes if m is not mode]
        sup = [m for i, m in enumerate(others) if (k % 16) >> i & 1]
        remote, W, mint, maxt = make_remote(ip, ctx, False, sup)
        t = sym_int(ctx, "target", -1000, 1000)
        ob = outcome_of(lambda: ip.call_function(func(R + "SwitcherBreezeRemote.build_command"),
                                                 [remote, State.ON, mode, t, Fan.LOW, Swing.OFF, None], {}, ctx))
        base = f"{PROP}/unsupported_mode/{mode.name}/supported_" + ("".join(m.name[0] for m in sup) or "none")
        ok = ob[0] == "exc" and ob[1].cls == "RuntimeError"
        obs.append(Obligation(base + "/raises_RuntimeError", ctx, ok))
        if ok:
            msg = ob[1].args[0] if ob[1].args else ""
            names = isinstance(msg, str) and all(m.display in msg for m in sup)
            obs.append(Obligation(base + "/message_names_supported_modes", ctx, bool(names)))
        return obs
    u["unsupported_mode"] = Unit("unsupported_mode", PROP, unsupported, functions=[R + "SwitcherBreezeRemote.build_command"])

    def swingcmd(ip, ctx):
        swing = list(Swing)[ctx.fork(2)]
        remote, W, mint, maxt = make_remote(ip, ctx, False, list(Mode), sep=True)
        key = ip.call_function(func("spec.swing_key_spec"), [swing is Swing.ON], {}, ctx)
        present = ctx.branch(W.has(key, ctx))
        ob = outcome_of(lambda: ip.call_function(func(R + "SwitcherBreezeRemote.build_swing_command"), [remote, swing], {}, ctx))
        base = f"{PROP}/build_swing_command/{swing.name}/" + ("present" if present else "absent")
        if present:
            return command_obligations(ip, ctx, base, ob, W, key)
        return [Obligation(base + "/raises_RuntimeError", ctx, ob[0] == "exc" and ob[1].cls == "RuntimeError")]
    u["build_swing_command"] = Unit("build_swing_command", PROP, swingcmd, functions=[R + "SwitcherBreezeRemote.build_swing_command"])

    def cmdlen(ip, ctx):
        m = hex_message(ctx)
        ctx.assume(m.length() <= 4000)
        ob = outcome_of(lambda: ip.instantiate(cls(R + "SwitcherBreezeCommand"), [m], {}, ctx))
        base = f"{PROP}/SwitcherBreezeCommand"
        obs = [Obligation(base + "/constructs", ctx, ob[0] == "ret")]
        if ob[0] == "ret":
            n = simp(zi(m.length()) / 2)
            want = ip.call_function(func("spec.hexs"), [ip.call_function(func("spec.le16"), [n], {}, ctx)], {}, ctx)
            obs.append(Obligation(base + "/command_kept", ctx, ip.equals(ob[1].attrs.get("command"), m, ctx)))
            obs.append(Obligation(base + "/length_is_le16_of_byte_count", ctx, ip.equals(ob[1].attrs.get("length"), want, ctx)))
        return obs
    u["command_length"] = Unit("command_length", PROP, cmdlen, functions=[R + "SwitcherBreezeCommand.__init__", R + "SwitcherBreezeCommand._get_command_length"])

    def canary(ip, ctx):
        remote, W, mint, maxt = make_remote(ip, ctx, False, list(Mode))
        t = sym_int(ctx, "target", -1000, 1000)
        ctx.assume(W.has("off", ctx))
        ob = outcome_of(lambda: ip.call_function(func(R + "SwitcherBreezeRemote.build_command"),
                                                 [remote, State.OFF, Mode.COOL, t, Fan.LOW, Swing.OFF, None], {}, ctx))
        return [Obligation(PROP + "/_canary/off_command_is_empty", ctx, ip.equals(ob[1].attrs["command"], "00000000", ctx))]
    u["_canary"] = Unit("_canary", PROP, canary)
    return u


def replay_case(o):
    if "_canary" in o["name"]:
        return {"prop": PROP, "kind": "canary", "inputs": {}}
    return None       # abstract IR maps do not concretise; the directed search generates concrete sets


def search_cases(o, seed):
    return [{"prop": PROP, "kind": "sweep", "inputs": {"seed": seed, "sets": 150, "requests": 200}}]


def native_cases(tier, seed):
    q = tier == "quick"
    return [{"prop": PROP, "kind": "sweep", "inputs": {"seed": seed, "sets": 300 if q else 10000, "requests": 100 if q else 100}},
            {"prop": PROP, "kind": "manager", "inputs": {"seed": seed}}]
