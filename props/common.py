"""helpers shared by the property modules: symbolic inputs, equivalence units, witnesses"""
import z3

from pyvc.sym import (Seq, Elems, Gen, array_gen, byte_fact, char_fact, SymEnum, zi, simp, isz)
from pyvc.engine import (Unit, Obligation, outcome_of, equiv_obligations, deep_equals, concretise, make_interp, _WORKER)
from pyvc.interp import PyExc, Unsupported


def P():
    return _WORKER["P"]


def sym_int(ctx, name, lo=None, hi=None):
    v = z3.Int(name)
    if lo is not None:
        ctx.fact(v >= lo)
    if hi is not None:
        ctx.fact(v <= hi)
    ctx.inputs[name] = v
    return v


def sym_bytes(ctx, name, n, register=True):
    ts = [z3.Int(f"{name}[{i}]") for i in range(n)]
    for t in ts:
        ctx.fact(byte_fact(t))
    s = Seq('bytes', [Elems(ts)])
    if register:
        ctx.inputs[name] = s
    return s


def sym_bytes_atleast(ctx, name, nmin, nmax=1024):
    """bytes of symbolic length in [nmin, nmax]: nmin per-byte terms followed by an array segment"""
    ts = [z3.Int(f"{name}[{i}]") for i in range(nmin)]
    for t in ts:
        ctx.fact(byte_fact(t))
    extra = z3.Int(name + "$extra")
    ctx.fact(z3.And(extra >= 0, extra <= nmax - nmin))
    g = array_gen(name + "$tail", extra, (), byte_fact)
    s = Seq('bytes', [Elems(ts), g])
    ctx.inputs[name] = s
    return s


def opaque_str(ctx, name, minlen=0, maxlen=None, hexpred=None, flags=()):
    L = z3.Int(name + "$len")
    ctx.fact(L >= minlen)
    if maxlen is not None:
        ctx.fact(L <= maxlen)
    g = array_gen(name, L, flags, char_fact)
    if hexpred == "free":
        g.hexpred = z3.Bool(name + "$allhex")
    s = Seq('str', [g])
    ctx.inputs[name] = s
    return s


def sym_enum(ctx, name, cls, members=None):
    members = list(members if members is not None else cls)
    idx = z3.Int(name + "$idx")
    ctx.fact(z3.And(idx >= 0, idx < len(members)))
    v = SymEnum(cls, idx, members)
    ctx.inputs[name] = v
    return v


def sym_outcome(ob, model, ctx=None):
    """canonical outcome under the model.  When the value depends on symbols other than the registered inputs
    (uninterpreted library functions such as CRC, whose model value is arbitrary) only the outcome kind is comparable:
    'inexact' tells the cross-check to compare kinds (and lengths) only."""
    from pyvc.engine import value_symbols
    k, v = ob
    if k == "exc":
        return {"k": "exc", "cls": v.cls}
    out = {"k": "ret", "v": concretise(v, model)}
    if ctx is not None:
        allowed = set()
        for x in ctx.inputs.values():
            value_symbols(x, allowed)
        allowed.add("idx!probe")
        used = value_symbols(v)
        if not used <= allowed:
            out["inexact"] = True
    return out


def func(qualname):
    f = P().func(qualname)
    if f is None:
        raise Unsupported(f"function {qualname} not found in the current source")
    return f


def _snapshot(a):
    """content of a mutable container argument (identity of the elements), None for anything else"""
    from pyvc.sym import PySet, PyList, PyDict
    if isinstance(a, PySet):
        return ("set", frozenset(id(x) if not isinstance(x, (int, str, bytes)) else x for x in a.s))
    if isinstance(a, PyList):
        return ("list", tuple(id(x) if not isinstance(x, (int, str, bytes)) else x for x in a.items))
    if isinstance(a, PyDict):
        return ("dict", tuple((k, id(v)) for k, v in a.d.items()))
    return None


def equiv_unit(prop, name, qualname, specname, make_inputs, kind=None, spec_args=None, prop_level=True, functions=None,
               requires=None, max_paths=20000, proves=None):
    """unit: for all inputs built by make_inputs(ctx) -> list of args: outcome(code) agrees with outcome(spec)"""
    def fn(ip, ctx):
        args = make_inputs(ctx)
        f = func(qualname)
        sp = func("spec." + specname)
        sargs = spec_args(args) if spec_args else args
        if requires is not None:
            pre = ip.call_function(func("spec." + requires), list(sargs), {}, ctx)
            ctx.assume(ip.truth(pre, ctx))
        ip.no_contract_for = {f.qualname}
        # the specification (pure) is evaluated first, on the arguments as the caller passed them; a function that edits a
        # mutable argument in place must not thereby also edit what the specification sees
        os_ = outcome_of(lambda: ip.call_function(sp, list(sargs), {}, ctx))
        snap = [_snapshot(a) for a in args]
        ob = outcome_of(lambda: ip.call_function(f, list(args), {}, ctx))
        ctx._code_outcome = ob
        obs = equiv_obligations(ip, ctx, f"{prop}/{name}", ob, os_, prop_level=prop_level)
        if any(sn is not None for sn in snap):
            same = all(sn is None or _snapshot(a) == sn for a, sn in zip(args, snap))
            obs.append(Obligation(f"{prop}/{name}/mutable_arguments_unchanged", ctx, same, prop_level=prop_level))
        return obs

    def witness(ctx, model):
        if kind is None:
            return None
        return {"case": {"prop": prop, "kind": kind, "inputs": {k: concretise(v, model) for k, v in ctx.inputs.items()}},
                "expect": sym_outcome(ctx._code_outcome, model, ctx)}
    return Unit(name, prop, fn, functions=functions or [qualname], witness=witness, max_paths=max_paths, proves=proves)


def hex_or_not_str(ctx, name, minlen=0, maxlen=None):
    """an arbitrary str of symbolic length, split by the Boolean H = 'every character is a hex digit' without
    quantifiers: under H element i is the hex digit (either case) number N[i] mod 22; under not H there is an
    index J < len whose character is not a hex digit and every other character is arbitrary."""
    L = z3.Int(name + "$len")
    ctx.fact(L >= minlen)
    if maxlen is not None:
        ctx.fact(L <= maxlen)
    H = z3.Bool(name + "$allhex")
    J = z3.Int(name + "$J")
    NH = z3.Int(name + "$nonhex")
    N = z3.Array(name + "$N", z3.IntSort(), z3.IntSort())
    RAW = z3.Array(name + "$raw", z3.IntSort(), z3.IntSort())
    from pyvc.sym import is_hexchar
    ctx.fact(z3.Implies(z3.Not(H), z3.And(J >= 0, J < L, NH >= 0, NH <= 0x10FFFF, z3.Not(is_hexchar(NH)))))

    def fn(i):
        n = z3.Select(N, i) % 22
        hx = z3.If(n < 10, n + 48, z3.If(n < 16, n + 87, n + 49))
        raw = z3.Select(RAW, i) % 0x110000
        return z3.If(H, hx, z3.If(i == J, NH, raw))
    g = Gen(L, fn, ("hexsplit", name), 0, (), None, None, H)
    s = Seq('str', [g])
    ctx.inputs[name] = s
    return s, H


def field_obligations(ip, ctx, base, ob, os_, prop_level=True):
    """code outcome is an object, spec outcome a dict of expected attributes: one obligation per field"""
    from pyvc.sym import Obj, PyDict
    if ob[0] == "ret" and os_[0] == "ret" and isinstance(ob[1], Obj) and isinstance(os_[1], PyDict):
        out = []
        for k, v in os_[1].d.items():
            if k not in ob[1].attrs:
                out.append(Obligation(f"{base}/{k}", ctx, False, note="attribute missing", prop_level=prop_level))
            else:
                out.append(Obligation(f"{base}/{k}", ctx, deep_equals(ip, ob[1].attrs[k], v, ctx), prop_level=prop_level))
        return out
    return equiv_obligations(ip, ctx, base, ob, os_, prop_level=prop_level)


def real_enum(modname, name):
    return getattr(P().real[modname], name)


def cls(qualname):
    c = P().cls(qualname)
    if c is None:
        raise Unsupported(f"class {qualname} not found in the current source")
    return c


def frame_ok(ctx):
    """the frame condition used by the induction arguments: the code assigned no location that any code of the package
    reads.  Writes to attributes that nothing ever reads (a debugging field, a statistics counter) are harmless and ignored;
    item stores / mutations of pre-existing or module-level containers always count."""
    loaded = P().loaded_attrs()
    bad = []
    for o, a in ctx.ghost.heap_writes:
        from pyvc.sym import Obj
        if isinstance(o, Obj) and isinstance(a, str) and "*" not in loaded and a not in loaded:
            continue
        bad.append((type(o).__name__ if not isinstance(o, Obj) else o.cls.name, a))
    bad += list(ctx.ghost.module_writes)
    return (not bad), str(bad[:3])
