"""C08 - state replies are decoded into exactly what the device reported (DESIGN.md 4/C08)"""
from .common import frame_ok as _frame_ok
import z3

from pyvc.engine import Unit, Obligation, outcome_of, concretise
from .common import (func, cls, sym_outcome, sym_bytes_atleast, field_obligations, real_enum, equiv_obligations)

PROP = "C08"
M = "aioswitcher.api.messages."
MIN_OBLIGATIONS = 100
ASSUMPTIONS = ["utf-8 codec restricted to ASCII for the 8-byte remote id (ids are ASCII in the protocol)",
               "float division v/10 and round(w/220, 1) are shared uninterpreted/real terms on the code and the spec side; "
               "watts_to_amps is validated natively on its whole 16-bit domain against the rational specification"]
ENUMERATED = ["remote id length 0..8", "mode x fan x swing x state codes (through dictionary-lookup forks)"]
EXPLANATION = ("each response dataclass is constructed symbolically (real __post_init__ and StateMessageParser getters from the "
               "AST) on a reply of symbolic length and content satisfying the well-formedness predicate of the specification; every "
               "field must equal the reference decoder of contracts/spec.py")


def E(name):
    return real_enum("aioswitcher.device", name)


def units(tier):
    u = {}

    def mk(name, clsname, nmin, wf, ref, extra=lambda: [], wfextra=lambda: [], kind=None):
        def fn(ip, ctx):
            r = sym_bytes_atleast(ctx, "r", nmin)
            pre = ip.call_function(func("spec." + wf), [r] + wfextra(), {}, ctx)
            ctx.assume(ip.truth(pre, ctx))
            c = cls(M + clsname)
            ob = outcome_of(lambda: ip.instantiate(c, [r], {}, ctx))
            ctx._code_outcome = ob
            os_ = outcome_of(lambda: ip.call_function(func("spec." + ref), [r] + wfextra() + extra(), {}, ctx))
            return field_obligations(ip, ctx, f"{PROP}/{clsname}", ob, os_) + [
                Obligation(f"{PROP}/{clsname}/parsing_assigns_nothing", ctx, _frame_ok(ctx)[0],
                           note=str(ctx.ghost.module_writes[:2]))]

        def wit(ctx, model):
            return {"case": {"prop": PROP, "kind": kind or name, "inputs": {"r": concretise(ctx.inputs["r"], model)}},
                    "expect": sym_outcome(ctx._code_outcome, model, ctx)}
        u[name] = Unit(name, PROP, fn, functions=[M + clsname + ".__post_init__"], witness=wit)
    mk("state1", "SwitcherStateResponse", 101, "wf_state1", "ref_state1", lambda: [E("DeviceState")])
    mk("shutter", "SwitcherShutterStateResponse", 80, "wf_shutter", "ref_shutter", lambda: [E("ShutterDirection")])
    for idlen in range(9):
        mk(f"thermostat_id{idlen}", "SwitcherThermostatStateResponse", 92, "wf_thermostat", "ref_thermostat",
           lambda: [E("DeviceState"), E("ThermostatMode"), E("ThermostatFanLevel"), E("ThermostatSwing")],
           lambda idlen=idlen: [idlen], kind="thermostat")

    def login(ip, ctx):
        r = sym_bytes_atleast(ctx, "r", 12)
        c = cls(M + "SwitcherLoginResponse")
        ob = outcome_of(lambda: ip.instantiate(c, [r], {}, ctx))
        ctx._code_outcome = ob
        os_ = outcome_of(lambda: ip.call_function(func("spec.ref_login"), [r], {}, ctx))
        if ob[0] == "ret":
            return [Obligation(f"{PROP}/SwitcherLoginResponse/session_id", ctx, ip.equals(ob[1].attrs.get("session_id"), os_[1], ctx)),
                    Obligation(f"{PROP}/SwitcherLoginResponse/unparsed_response", ctx, ip.equals(ob[1].attrs.get("unparsed_response"), r, ctx))]
        return equiv_obligations(ip, ctx, f"{PROP}/SwitcherLoginResponse", ob, os_)

    def login_wit(ctx, model):
        return {"case": {"prop": PROP, "kind": "login", "inputs": {"r": concretise(ctx.inputs["r"], model)}},
                "expect": sym_outcome(ctx._code_outcome, model, ctx)}
    u["login"] = Unit("login", PROP, login, functions=[M + "SwitcherLoginResponse.__post_init__"], witness=login_wit)

    def canary(ip, ctx):
        r = sym_bytes_atleast(ctx, "r", 101)
        pre = ip.call_function(func("spec.wf_state1"), [r], {}, ctx)
        ctx.assume(ip.truth(pre, ctx))
        o = ip.instantiate(cls(M + "SwitcherStateResponse"), [r], {}, ctx)
        return [Obligation(PROP + "/_canary/power_is_zero", ctx, ip.equals(o.attrs["power_consumption"], 0, ctx))]
    u["_canary"] = Unit("_canary", PROP, canary)
    return u


def replay_case(o):
    i = o.get("inputs") or {}
    if "r" not in i:
        return None
    name = o["name"]
    if "_canary" in name:
        return {"prop": PROP, "kind": "canary", "inputs": i}
    kind = {"SwitcherStateResponse": "state1", "SwitcherShutterStateResponse": "shutter",
            "SwitcherThermostatStateResponse": "thermostat", "SwitcherLoginResponse": "login"}.get(name.split("/")[1])
    return {"prop": PROP, "kind": kind, "inputs": i} if kind else None


def search_cases(o, seed):
    return [{"prop": PROP, "kind": "sweep", "inputs": {"seed": seed, "n": 3000}}]


def native_cases(tier, seed):
    return [{"prop": PROP, "kind": "sweep", "inputs": {"seed": seed, "n": 3000 if tier == "quick" else 100000}},
            {"prop": PROP, "kind": "repeats", "inputs": {"seed": seed, "n": 300 if tier == "quick" else 10000}},
            {"prop": PROP, "kind": "shipped", "inputs": {}},
            {"prop": PROP, "kind": "amps", "inputs": {"step": 7 if tier == "quick" else 1}}]
