"""C06 - only genuine Switcher broadcasts are accepted; anything else is ignored quietly (DESIGN.md 4/C06)"""
from .common import frame_ok as _frame_ok
import z3

from pyvc.sym import Seq, Elems
from pyvc.engine import Unit, Obligation, outcome_of, concretise, make_interp
from pyvc.interp import EnvObj
from contracts.registry import BRIDGE
from .common import func, cls, sym_outcome, sym_bytes, sym_bytes_atleast, real_enum
from .c05 import install_callback_env, B, PARSE

PROP = "C06"
MIN_OBLIGATIONS = 20
ASSUMPTIONS = ["warnings.warn is modelled as an append to the ghost warning list"]
ENUMERATED = ["datagram length classes 0..7 exact and >= 8 (symbolic, up to 65535)", "all 65,536 model codes as two symbolic bytes distinct from the known codes"]
EXPLANATION = ("is_switcher_originator executed on datagrams of every length (symbolic) must equal spec.gate_spec; "
               "_parse_device_from_datagram on any non-gate datagram must have no effect at all, and on a gate-passing datagram "
               "with an unknown model code must warn once, deliver nothing and not raise")
WARNING = "discovered an unknown switcher device"


def interp_for(unit):
    ip = make_interp(contracts={})
    install_callback_env(ip)
    return ip


def mk_datagram(ctx, lc):
    if lc == "ge2":
        return sym_bytes_atleast(ctx, "m", 2, 65535)
    if lc == "ge8":
        return sym_bytes_atleast(ctx, "m", 8, 65535)
    m = sym_bytes(ctx, "m", lc) if lc else b""
    ctx.inputs["m"] = m
    return m


def effects(ctx, ob):
    return {"k": ob[0], "cls": ob[1].cls if ob[0] == "exc" else None, "n": len(ctx.ghost.callback_calls),
            "warnings": [w if isinstance(w, str) else "?" for w in ctx.ghost.warnings]}


def units(tier):
    u = {}
    for lc in (0, 1, 2, 3, 4, 5, 6, 7, "ge8"):
        def gate(ip, ctx, lc=lc):
            m = mk_datagram(ctx, lc)
            parser = ip.instantiate(cls(B + "DatagramParser"), [m], {}, ctx)
            ob = outcome_of(lambda: ip.call_function(func(B + "DatagramParser.is_switcher_originator"), [parser], {}, ctx))
            ctx._code_outcome = ob
            sp = ip.call_function(func("spec.gate_spec"), [m], {}, ctx)
            base = f"{PROP}/gate_len_{lc}"
            if ob[0] != "ret":
                return [Obligation(base + "/no_exception", ctx, False, note=str(ob[1]))]
            return [Obligation(base + "/iff_magic_and_length", ctx, ip.equals(ip.truth(ob[1], ctx), ip.truth(sp, ctx), ctx))]

        def gate_wit(ctx, model):
            return {"case": {"prop": PROP, "kind": "gate", "inputs": {"m": concretise(ctx.inputs["m"], model)}},
                    "expect": sym_outcome(ctx._code_outcome, model, ctx)}
        u[f"gate_{lc}"] = Unit(f"gate_{lc}", PROP, gate, functions=[B + "DatagramParser.is_switcher_originator"], witness=gate_wit)

        def ignore(ip, ctx, lc=lc):
            m = mk_datagram(ctx, lc)
            sp = ip.call_function(func("spec.gate_spec"), [m], {}, ctx)
            ctx.assume(ip.truth(ip.ev_not(sp, ctx) if hasattr(ip, "ev_not") else _not(ip, sp, ctx), ctx))
            cb = EnvObj("callback")
            ob = outcome_of(lambda: ip.call_function(func(PARSE), [cb, m], {}, ctx))
            ctx._eff = effects(ctx, ob)
            base = f"{PROP}/foreign_len_{lc}"
            return [Obligation(base + "/no_exception", ctx, ob[0] == "ret", note=str(ob[1]) if ob[0] == "exc" else ""),
                    Obligation(base + "/no_device", ctx, len(ctx.ghost.callback_calls) == 0),
                    Obligation(base + "/no_warning", ctx, len(ctx.ghost.warnings) == 0)]

        def eff_wit(ctx, model):
            return {"case": {"prop": PROP, "kind": "effects", "inputs": {"m": concretise(ctx.inputs["m"], model)}},
                    "expect": {"k": "ret", "v": ctx._eff}}
        u[f"foreign_{lc}"] = Unit(f"foreign_{lc}", PROP, ignore, functions=[PARSE], witness=eff_wit)

    DT = real_enum("aioswitcher.device", "DeviceType")
    for n in (165, 168, 159):
        def unknown(ip, ctx, n=n):
            m = sym_bytes(ctx, "m", n)
            ts = m.segs[0].terms
            ctx.assume(z3.And(ts[0] == 0xFE, ts[1] == 0xF0))
            for dt in DT:
                code = bytes.fromhex(dt.hex_rep)
                ctx.assume(z3.Not(z3.And(ts[74] == code[0], ts[75] == code[1])))
            cb = EnvObj("callback")
            ob = outcome_of(lambda: ip.call_function(func(PARSE), [cb, m], {}, ctx))
            ctx._eff = effects(ctx, ob)
            base = f"{PROP}/unknown_model_len_{n}"
            return [Obligation(base + "/assigns_nothing", ctx, _frame_ok(ctx)[0],
                               note=str(ctx.ghost.module_writes[:2])),
                    Obligation(base + "/no_exception", ctx, ob[0] == "ret", note=str(ob[1]) if ob[0] == "exc" else ""),
                    Obligation(base + "/no_device", ctx, len(ctx.ghost.callback_calls) == 0),
                    Obligation(base + "/one_unknown_device_warning", ctx, len(ctx.ghost.warnings) == 1 and isinstance(ctx.ghost.warnings[0], str)
                               and "unknown" in ctx.ghost.warnings[0].lower())]
        u[f"unknown_model_{n}"] = Unit(f"unknown_model_{n}", PROP, unknown, functions=[PARSE, B + "DatagramParser.get_device_type"], witness=eff_wit)

    def canary(ip, ctx):
        m = mk_datagram(ctx, "ge8")
        parser = ip.instantiate(cls(B + "DatagramParser"), [m], {}, ctx)
        r = ip.call_function(func(B + "DatagramParser.is_switcher_originator"), [parser], {}, ctx)
        t = ip.truth(r, ctx)
        return [Obligation(PROP + "/_canary/never_accepts", ctx, (not t) if isinstance(t, bool) else z3.Not(t))]
    u["_canary"] = Unit("_canary", PROP, canary)
    return u


def _not(ip, v, ctx):
    t = ip.truth(v, ctx)
    return (not t) if isinstance(t, bool) else z3.Not(t)


def replay_case(o):
    i = o.get("inputs") or {}
    if "m" not in i:
        return None
    if "_canary" in o["name"]:
        return {"prop": PROP, "kind": "canary", "inputs": i}
    return {"prop": PROP, "kind": "check", "inputs": i}


def search_cases(o, seed):
    return [{"prop": PROP, "kind": "sweep", "inputs": {"seed": seed, "maxlen": 400, "codes": 4096}}]


def native_cases(tier, seed):
    return [{"prop": PROP, "kind": "sweep", "inputs": {"seed": seed, "maxlen": 400, "codes": 2048 if tier == "quick" else 65536}}]
