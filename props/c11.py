"""C11 - clock times survive encoding and decoding in every time zone and on every date (DESIGN.md 4/C11)"""
import z3

from pyvc.sym import Seq, Elems, simp, zi
from pyvc.engine import Unit, Obligation, outcome_of, equiv_obligations, concretise
from pyvc.timemodels import TimeStr
from pyvc import models
from .common import func, sym_outcome, sym_bytes
from .api_common import hex_of_bytes

PROP = "C11"
ENC = "aioswitcher.schedule.tools.time_to_hexadecimal_timestamp"
DEC = "aioswitcher.schedule.tools.hexadecimale_timestamp_to_localtime"
MIN_OBLIGATIONS = 6
ASSUMPTIONS = [
    "libc L1: for a local time (today, h, m) that exists, localtime(mktime(today, h, m)) has hour h and minute m -- assumed; it is a "
    "statement about libc + tzdata, validated by the bounded zone x date sweep on the installed tzdata",
    "libc L2: 0 <= mktime < 2^32 for dates 1970..2105",
    "strptime models: '%H:%M' accepts exactly H{1,2}:M{1,2} (H<24, M<60); in '%d/%m/%Y %H:%M' the blank matches \\s+",
    "an arbitrary input string is abstracted by (number of colons, class of the text before / after the first colon); "
    "the abstraction is cross-checked natively on representative and random strings",
]
BOUNDED_PARTS = ["zone x date sweep of the real functions: quick 4 zones x 5 dates x 1440 minutes; thorough 25 zones x ~40 dates x 1440 "
                 "minutes (validates L1 on the installed tzdata; bounded, never counted as proved)"]
ENUMERATED = ["string classes: 0 / 1 / >= 2 colons x {H, blanks+H, other} x {M, other}; hours, minutes, digit counts symbolic"]
EXPLANATION = ("encoder and decoder executed from the AST against spec.time_encode_spec / time_decode_spec with MKTIME/LOCALTIME "
               "uninterpreted; the round trip follows from the two contracts and L1 (lemma unit)")


def units(tier):
    u = {}

    def enc(ip, ctx):
        v = TimeStr("v", ctx)
        ctx.inputs["v"] = v
        ob = outcome_of(lambda: ip.call_function(func(ENC), [v], {}, ctx))
        ctx._code_outcome = ob
        os_ = outcome_of(lambda: ip.call_function(func("spec.time_encode_spec"), [v], {}, ctx))
        obs = equiv_obligations(ip, ctx, f"{PROP}/encode", ob, os_)
        # exactly one read of the local date (no second clock)
        obs.append(Obligation(f"{PROP}/encode/one_local_date_read", ctx,
                              len([r for r in ctx.ghost.clock_reads if r[0] != "time.strftime"]) == 0))
        return obs

    def enc_wit(ctx, model):
        return {"case": {"prop": PROP, "kind": "encode", "inputs": {"v": concretise(ctx.inputs["v"], model)}},
                "expect": sym_outcome(ctx._code_outcome, model, ctx)}
    u["encode"] = Unit("encode", PROP, enc, functions=[ENC], witness=enc_wit)

    def dec(ip, ctx):
        b = sym_bytes(ctx, "stamp", 4)
        h = ip.call_method(hex_of_bytes(b), "encode", [], {}, ctx)
        ob = outcome_of(lambda: ip.call_function(func(DEC), [h], {}, ctx))
        ctx._code_outcome = ob
        os_ = outcome_of(lambda: ip.call_function(func("spec.time_decode_spec"), [h], {}, ctx))
        return equiv_obligations(ip, ctx, f"{PROP}/decode", ob, os_)

    def dec_wit(ctx, model):
        return {"case": {"prop": PROP, "kind": "decode", "inputs": {"stamp": concretise(ctx.inputs["stamp"], model)}},
                "expect": sym_outcome(ctx._code_outcome, model, ctx)}
    u["decode"] = Unit("decode", PROP, dec, functions=[DEC], witness=dec_wit)

    def roundtrip(ip, ctx):
        v = TimeStr("v", ctx)
        ctx.inputs["v"] = v
        ctx.assume(v.valid())
        e = ip.call_function(func(ENC), [v], {}, ctx)
        from pyvc.timemodels import local_date
        Y, M, D = local_date(ctx)
        t = models.MKTIME(zi(Y), zi(M), zi(D), zi(v.hv), zi(v.mv), z3.IntVal(0))
        # L1 (assumed): the local time exists, so localtime(mktime(.)) gives it back
        ctx.assume(z3.And(models.LT_HOUR(t) == v.hv, models.LT_MIN(t) == v.mv))
        back = ip.call_function(func(DEC), [ip.call_method(e, "encode", [], {}, ctx)], {}, ctx)
        want = ip.call_function(func("spec.hhmm"), [v.hv, v.mv], {}, ctx)
        return [Obligation(f"{PROP}/roundtrip/decode_of_encode_is_HHMM", ctx, ip.equals(back, want, ctx))]
    u["roundtrip"] = Unit("roundtrip", PROP, roundtrip, functions=[ENC, DEC])

    def canary(ip, ctx):
        v = TimeStr("v", ctx)
        ctx.inputs["v"] = v
        ob = outcome_of(lambda: ip.call_function(func(ENC), [v], {}, ctx))
        return [Obligation(PROP + "/_canary/always_raises", ctx, ob[0] == "exc")]
    u["_canary"] = Unit("_canary", PROP, canary)
    return u


def replay_case(o):
    i = o.get("inputs") or {}
    if "_canary" in o["name"]:
        return {"prop": PROP, "kind": "canary", "inputs": i}
    if "v" in i:
        return {"prop": PROP, "kind": "encode_check", "inputs": i}
    if "stamp" in i:
        return {"prop": PROP, "kind": "decode_check", "inputs": i}
    return None


def search_cases(o, seed):
    return [{"prop": PROP, "kind": "strings", "inputs": {"seed": seed}}] + \
        [{"prop": PROP, "kind": "zone_sweep", "inputs": {"zone": z, "dates": "transitions"}} for z in ZONES_Q[1:]]


# Europe/Dublin: the only zone whose tm_isdst is 1 in WINTER (negative daylight saving); Africa/Casablanca: offset changes for Ramadan
ZONES_Q = ["UTC", "Asia/Jerusalem", "America/New_York", "Australia/Lord_Howe", "Europe/Dublin", "Africa/Casablanca"]
ZONES_T = ZONES_Q + ["Asia/Kathmandu", "Pacific/Kiritimati", "Pacific/Pago_Pago", "America/St_Johns", "Europe/London", "Europe/Berlin",
                     "Asia/Tehran", "Asia/Kolkata", "Pacific/Chatham", "America/Sao_Paulo", "Asia/Almaty", "Asia/Tokyo", "America/Asuncion",
                     "America/Los_Angeles", "Australia/Adelaide", "Pacific/Apia", "America/Caracas", "Europe/Lisbon", "Asia/Gaza",
                     "America/Havana", "Antarctica/Troll", "Atlantic/Azores"]


def native_cases(tier, seed):
    zones = ZONES_Q if tier == "quick" else ZONES_T
    cases = [{"prop": PROP, "kind": "strings", "inputs": {"seed": seed}}]
    for z in zones:
        # quick: the days around every DST transition for the two zones with the most unusual rules, a few fixed dates elsewhere
        tr = tier != "quick" or z in ("America/New_York", "Australia/Lord_Howe")
        cases.append({"prop": PROP, "kind": "zone_sweep", "inputs": {"zone": z, "dates": "transitions" if tr else "few"}})
    return cases
