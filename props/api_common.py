"""shared machinery for the API properties (C01, C02, C03, C09, C16, C18): the stream environment (E5/E6), a configured
API instance, and the scripted replies"""
import z3

from pyvc.sym import Seq, Elems, Obj, zi, simp, hexchar, nib_hi, nib_lo, byte_fact
from pyvc.engine import Unit, Obligation, outcome_of, concretise, make_interp
from pyvc.interp import EnvObj, PyExc, Unsupported
from pyvc.sym import ExcVal
from .common import func, cls, P, sym_bytes, sym_bytes_atleast, sym_int

API = "aioswitcher.api."
NOW_MAX = 2 ** 32 - 2


def stream_env(ip):
    """E6: writer.write appends to ghost writes; reader.read returns the next scripted reply"""
    def writer(ip_, o, name, args, kw, ctx):
        if name == "write":
            if o.state.get("closed"):
                raise Unsupported("write on a closed writer")
            data = args[0]
            if not isinstance(data, (bytes, Seq)) or (isinstance(data, Seq) and data.kind != 'bytes'):
                raise PyExc(ExcVal("TypeError", ("data argument must be a bytes-like object",)))
            ctx.ghost.writes.append(data)
            ctx.ghost.events.append(("write", data))
            return None
        if name == "close":
            o.state["closed"] = True
            ctx.ghost.events.append(("close", o))
            return None
        if name == "wait_closed":
            ctx.ghost.events.append(("wait_closed", o))
            which = ctx.fork(3) if o.state.get("maybe_lost") else 0
            if which:
                # E6': when the peer reset the connection (an operation failed on it), asyncio hands the transport's error to
                # whoever awaits wait_closed(): ConnectionResetError / BrokenPipeError, on every call
                ctx.used_models.add("E6': wait_closed() of a connection the peer reset raises ConnectionResetError/BrokenPipeError (OSError)")
                raise PyExc(ExcVal("ConnectionResetError" if which == 1 else "BrokenPipeError", ("connection lost",)))
            return None
        if name == "is_closing":
            return bool(o.state.get("closed"))
        if name == "__bool__":
            return True
        return NotImplemented

    def reader(ip_, o, name, args, kw, ctx):
        if name == "read":
            script = o.state["replies"]
            i = ctx.ghost.reads
            ctx.ghost.reads += 1
            if i >= len(script):
                # the code reads more often than the exchange the driver scripted: every further reply is arbitrary
                r = sym_bytes_atleast(ctx, f"R{i + 1}", 0, 1024)
            else:
                r = script[i](ctx) if callable(script[i]) else script[i]
            ctx.ghost.events.append(("read", r))
            return r
        if name == "at_eof":
            # the peer may or may not have closed its side already: environment non-determinism
            return bool(ctx.fork(2))
        if name == "__bool__":
            return True
        return NotImplemented
    def wait_for(ip_, args, kw, ctx):
        """E9: asyncio.wait_for(aw, timeout) returns aw's result, or raises TimeoutError after cancelling aw - a cancelled stream
        read has consumed nothing: the reply (arriving later) is still the next thing the connection delivers"""
        from pyvc.interp import Builtin as _B
        aw = args[0] if args else kw.get("fut")
        ctx.used_models.add("E9: asyncio.wait_for returns the awaited result or raises TimeoutError leaving a cancelled stream read unconsumed")
        if ctx.fork(2) == 0:
            return aw
        if ctx.ghost.events and ctx.ghost.events[-1][0] == "read" and ctx.ghost.events[-1][1] is aw:
            ctx.ghost.events.pop()
            ctx.ghost.reads -= 1
        ctx.ghost.events.append(("timeout",))
        raise PyExc(ExcVal("TimeoutError", ()))
    from pyvc.interp import Builtin
    ip.ext_models["asyncio.wait_for"] = Builtin("wait_for", wait_for)

    def open_connection(ip_, args, kw, ctx):
        """E5 inside an operation (code that re-connects by itself): refused, or a fresh open (reader, writer) whose replies are
        arbitrary; the frames written to it are a NEW connection's frames (ghost event 'open_connection')"""
        if args:
            raise Unsupported("open_connection with positional arguments")
        ctx.ghost.events.append(("open_connection", dict(kw)))
        if ctx.fork(2) == 1:
            raise PyExc(ExcVal("OSError", ("connection refused",)))
        return (EnvObj("reader", replies=[]), EnvObj("writer"))
    if "asyncio.open_connection" not in ip.ext_models:
        ip.ext_models["asyncio.open_connection"] = Builtin("open_connection", open_connection)
    if not hasattr(ip, "env_handlers"):
        ip.env_handlers = {}
    ip.env_handlers["writer"] = writer
    ip.env_handlers["reader"] = reader


def hex_of_bytes(seq):
    """lower-case hex text (str) of symbolic bytes"""
    ts = []
    for b in seq.terms():
        ts += [hexchar(nib_hi(b)), hexchar(nib_lo(b))]
    return Seq('str', [Elems(ts)])


def make_api(ip, ctx, kind, replies):
    """a connected SwitcherType1Api / SwitcherType2Api with symbolic device id (3 bytes) and key (1 byte), given as the
    lower-case hex text the library's own broadcast parser produces"""
    idb = sym_bytes(ctx, "dev_id", 3)
    keyb = sym_bytes(ctx, "dev_key", 1)
    c = cls(API + ("SwitcherType1Api" if kind == 1 else "SwitcherType2Api"))
    api = ip.instantiate(c, ["192.0.2.1", hex_of_bytes(idb), hex_of_bytes(keyb)], {}, ctx)
    api.attrs["_writer"] = EnvObj("writer")
    api.attrs["_reader"] = EnvObj("reader", replies=replies)
    api.attrs["_connected"] = True
    api.preexisting = True
    ctx.now_range = (0, NOW_MAX)
    return api, idb, keyb


def reply(ctx, name, lc):
    """a reply of length class lc: an int (exact length) or ('ge', n)"""
    if isinstance(lc, tuple):
        return sym_bytes_atleast(ctx, name, lc[1], 1024)
    if lc == 0:
        ctx.inputs[name] = b""
        return b""
    return sym_bytes(ctx, name, lc)


def the_clock(ctx):
    """the single time.time() symbol of the operation, or None"""
    reads = [r for r in ctx.ghost.clock_reads if r[0] == "time.time"]
    return reads[0][1] if len(reads) == 1 else None


def api_interp(contracts=None):
    ip = make_interp(contracts=contracts or {})
    stream_env(ip)
    return ip
