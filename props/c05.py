"""C05 - a status broadcast is decoded into exactly the device the sender described (DESIGN.md 4/C05)"""
from .common import frame_ok as _frame_ok
import z3

from pyvc.sym import Seq, Elems, Gen, array_gen, byte_fact, char_fact
from pyvc.engine import Unit, Obligation, outcome_of, concretise, make_interp
from pyvc.interp import EnvObj
from contracts.registry import BRIDGE
from .common import (func, cls, P, sym_outcome, sym_bytes, field_obligations, real_enum, equiv_obligations)

PROP = "C05"
B = "aioswitcher.bridge."
PARSE = B + "_parse_device_from_datagram"
MIN_OBLIGATIONS = 200
ASSUMPTIONS = ["utf-8 codec model: decode(encode(s) ++ zeros).rstrip(NUL) == s for s without trailing NUL; ASCII bytes decode to themselves",
               "socket.inet_ntoa model (decimal dotted quad)", "datetime.time.isoformat model",
               "SwitcherBase.last_data_update (wall-clock stamp) is outside the claim"]
ENUMERATED = ["9 device types", "name field: UTF-8 byte length 0..32", "state ON/OFF, mode/fan/swing/direction codes (dictionary forks)"]
EXPLANATION = ("_parse_device_from_datagram is executed symbolically on a datagram of the family's length whose every byte is a "
               "solver variable (well-formedness predicate of the specification assumed); the single device object handed to the "
               "callback must have the reference class and every field equal to the reference decoder. DatagramParser.get_name "
               "is used through its contract (proved by the get_name_len* units).")
CLASS_OF = {"WATER_HEATER": "SwitcherWaterHeater", "POWER_PLUG": "SwitcherPowerPlug", "SHUTTER": "SwitcherShutter",
            "THERMOSTAT": "SwitcherThermostat"}
LEN_OF = {"WATER_HEATER": 165, "POWER_PLUG": 165, "SHUTTER": 159, "THERMOSTAT": 168}


def E(name):
    return real_enum("aioswitcher.device", name)


def interp_for(unit):
    ip = make_interp(contracts=dict(BRIDGE))
    install_callback_env(ip)
    return ip


def install_callback_env(ip):
    from pyvc.interp import PyExc
    from pyvc.sym import ExcVal

    def cb_model(ip_, o, name, args, kw, ctx):
        if name == "__bool__":
            # a callable may be falsy (an object with __call__ and __len__, e.g. an empty registry): its truth value says
            # nothing about whether it must be called
            return bool(ctx.fork(2))
        if name == "__len__":
            return [0, 3][ctx.fork(2)]
        if name != "__call__":
            return NotImplemented
        ctx.ghost.callback_calls.append(args[0] if args else None)
        ctx.ghost.events.append(("callback", args[0] if args else None))
        ctx.ghost.events.append(("callback_object", o))
        if o.state.get("may_raise"):
            if ctx.fork(2) == 1:
                raise PyExc(ExcVal("CallbackError", ("raised by the user's callback",)))
        return None
    if not hasattr(ip, "env_handlers"):
        ip.env_handlers = {}
    ip.env_handlers["callback"] = cb_model
    # EnvObj calls are dispatched through method_models with name "__call__"


def datagram(ctx, dtype, n):
    """n symbolic bytes with the magic and the model code of dtype"""
    m = sym_bytes(ctx, "m", n, register=False)
    ts = m.segs[0].terms
    code = bytes.fromhex(dtype.hex_rep)
    ctx.assume(z3.And(ts[0] == 0xFE, ts[1] == 0xF0, ts[74] == code[0], ts[75] == code[1]))
    ctx.inputs["m"] = m
    return m


def units(tier):
    u = {}
    DT = E("DeviceType")
    for dt, split in [(d, sp) for d in DT for sp in (range(20) if d.category.name == "THERMOSTAT" else [None])]:
        cat = dt.category.name

        def fn(ip, ctx, dt=dt, cat=cat, split=split):
            m = datagram(ctx, dt, LEN_OF[cat])
            if split is not None:      # case split on (mode code, fan code) to spread the paths over workers
                ts = m.segs[0].terms
                ctx.assume(z3.And(ts[138] == 1 + split // 4, ts[140] / 16 == split % 4))
            if cat in ("WATER_HEATER", "POWER_PLUG"):
                wf = ip.call_function(func("spec.wf_type1"), [m, cat == "WATER_HEATER"], {}, ctx)
                ref = lambda: ip.call_function(func("spec.ref_power"), [m, dt, E("DeviceState"), cat == "WATER_HEATER"], {}, ctx)
            elif cat == "SHUTTER":
                wf = ip.call_function(func("spec.wf_shutter_bc"), [m], {}, ctx)
                ref = lambda: ip.call_function(func("spec.ref_shutter_bc"), [m, dt, E("DeviceState"), E("ShutterDirection")], {}, ctx)
            else:
                wf = ip.call_function(func("spec.wf_breeze_bc"), [m], {}, ctx)
                ref = lambda: ip.call_function(func("spec.ref_breeze_bc"), [m, dt, E("DeviceState"), E("ThermostatMode"),
                                                                            E("ThermostatFanLevel"), E("ThermostatSwing")], {}, ctx)
            ctx.assume(ip.truth(wf, ctx))
            cb = EnvObj("callback")
            ob = outcome_of(lambda: ip.call_function(func(PARSE), [cb, m], {}, ctx))
            ctx._code_outcome = ob
            base = f"{PROP}/{dt.name}" + ("" if split is None else f"/case{split}")
            obs = []
            calls = ctx.ghost.callback_calls
            obs.append(Obligation(base + "/returns_normally", ctx, ob[0] == "ret", note=str(ob[1]) if ob[0] == "exc" else ""))
            obs.append(Obligation(base + "/exactly_one_device", ctx, len(calls) == 1))
            obs.append(Obligation(base + "/no_warning", ctx, len(ctx.ghost.warnings) == 0))
            obs.append(Obligation(base + "/assigns_nothing", ctx, _frame_ok(ctx)[0],
                                  note=str(ctx.ghost.module_writes[:2])))
            if len(calls) == 1:
                dev = calls[0]
                obs.append(Obligation(base + "/class", ctx, getattr(getattr(dev, "cls", None), "name", None) == CLASS_OF[cat]))
                os_ = outcome_of(ref)
                obs += field_obligations(ip, ctx, base, ("ret", dev), os_)
            return obs

        def wit(ctx, model):
            calls = ctx.ghost.callback_calls
            exp = {"k": ctx._code_outcome[0], "n": len(calls)}
            if len(calls) == 1:
                so = sym_outcome(("ret", calls[0]), model, ctx)
                so["v"]["attrs"].pop("last_data_update", None)
                exp["dev"] = so["v"]
                inexact = bool(so.get("inexact"))
            else:
                inexact = False
            return {"case": {"prop": PROP, "kind": "parse", "inputs": {"m": concretise(ctx.inputs["m"], model)}},
                    "expect": {"k": "ret", "v": exp, "inexact": inexact}}
        uname = dt.name if split is None else f"{dt.name}_{split}"
        u[uname] = Unit(uname, PROP, fn, functions=[PARSE] + [B + "DatagramParser." + g for g in GETTERS], witness=wit)

    # get_name against its contract, for every UTF-8 byte length
    for L in range(0, 33):
        def gn(ip, ctx, L=L):
            n = z3.Int("name$len")
            ctx.fact(z3.And(n >= 0, n <= L, 4 * n >= L))
            name = Gen(n, lambda i: z3.Select(z3.Array("name", z3.IntSort(), z3.IntSort()), i), ("arr", "name"), 0, (), None, char_fact)
            ctx.fact(z3.Implies(n > 0, name.at(n - 1) != 0))
            raw = array_gen("name$utf8", L, (), byte_fact)
            raw.origin = ("utf8", name)
            head = sym_bytes(ctx, "head", 42, register=False)
            tail = sym_bytes(ctx, "tail", 91, register=False)
            m = Seq('bytes', head.segs + [raw, Elems([0] * (32 - L))] + tail.segs)
            parser = ip.instantiate(cls(B + "DatagramParser"), [m], {}, ctx)
            ip.no_contract_for = {B + "DatagramParser.get_name"}
            ob = outcome_of(lambda: ip.call_function(func(B + "DatagramParser.get_name"), [parser], {}, ctx))
            os_ = outcome_of(lambda: ip.call_function(func("spec.ref_name"), [m], {}, ctx))
            obs = equiv_obligations(ip, ctx, f"{PROP}/get_name_len{L}", ob, os_)
            if ob[0] == "ret":
                obs.append(Obligation(f"{PROP}/get_name_len{L}/is_the_encoded_name", ctx, ip.equals(ob[1], Seq('str', [name]), ctx)))
            return obs
        u[f"get_name_len{L}"] = Unit(f"get_name_len{L}", PROP, gn, functions=[B + "DatagramParser.get_name"])

    def canary(ip, ctx):
        dt = list(DT)[0]
        m = datagram(ctx, dt, 165)
        wf = ip.call_function(func("spec.wf_type1"), [m, True], {}, ctx)
        ctx.assume(ip.truth(wf, ctx))
        cb = EnvObj("callback")
        ip.call_function(func(PARSE), [cb, m], {}, ctx)
        dev = ctx.ghost.callback_calls[0]
        return [Obligation(PROP + "/_canary/always_off", ctx, dev.attrs["device_state"] is E("DeviceState").OFF)]
    u["_canary"] = Unit("_canary", PROP, canary)
    return u


GETTERS = ["get_ip_type1", "get_ip_type2", "get_mac", "get_name", "get_device_id", "get_device_key", "get_device_state",
           "get_auto_shutdown", "get_power_consumption", "get_remaining", "get_device_type", "get_shutter_position",
           "get_shutter_direction", "get_thermostat_temp", "get_thermostat_state", "get_thermostat_mode",
           "get_thermostat_target_temp", "get_thermostat_fan_level", "get_thermostat_swing", "get_thermostat_remote_id"]
QUICK_WITNESSES = 150


def replay_case(o):
    i = o.get("inputs") or {}
    if "m" not in i:
        return None
    return {"prop": PROP, "kind": "canary" if "_canary" in o["name"] else "check", "inputs": i}


def search_cases(o, seed):
    return [{"prop": PROP, "kind": "sweep", "inputs": {"seed": seed, "n": 3000}}]


def native_cases(tier, seed):
    return [{"prop": PROP, "kind": "sweep", "inputs": {"seed": seed, "n": 3000 if tier == "quick" else 100000}},
            {"prop": PROP, "kind": "sweep", "inputs": {"seed": seed + 1, "n": 600 if tier == "quick" else 20000, "debug_logging": True}},
            {"prop": PROP, "kind": "renames", "inputs": {"seed": seed, "n": 200 if tier == "quick" else 5000}},
            {"prop": PROP, "kind": "shipped", "inputs": {}},
            {"prop": PROP, "kind": "via_bridge", "inputs": {"seed": seed, "n": 12 if tier == "quick" else 200}}]
