"""C01 - every frame written to a device is self-consistent and correctly signed (DESIGN.md 4/C01)"""
import z3

from pyvc.engine import Unit, Obligation
from .common import func
from .apiops import ops, run_op, sp, interp_with_contracts, op_witness, QUERIES
from .api_common import API

PROP = "C01"
MIN_OBLIGATIONS = 300
ASSUMPTIONS = [
    "device id / key are configured as lower-case hex text of 3 / 1 bytes",
    "E6: writer.write(b) appends b to the peer-visible stream; reader.read returns an arbitrary reply",
    "the signing scheme sig() of the obligations is the one of contracts/spec.py; that sign_packet_with_crc_key computes it is "
    "re-proved in this run (dep_sign) and rests on the crc_hqx assumption of C04",
    "0 <= time.time() < 2^32 - 1",
]
ENUMERATED = ["all operations of both APIs x their argument variants (see C02); arguments are NOT restricted to the accepted domain: "
              "whatever is written, for any argument, must be a well-formed frame"]
EXPLANATION = ("for every operation, executed symbolically with a login reply of at least 12 bytes, every byte string handed to "
               "writer.write satisfies spec.frame_ok: magic, little-endian total length in bytes 2-3, f0 fe at 38-39, and the last four "
               "bytes equal sig(all preceding bytes)")


def interp_for(unit):
    if unit.name.startswith("breeze_") or unit.name == "dep_thermostat_response":
        from .breeze import breeze_interp
        return breeze_interp()
    return interp_with_contracts()


def frame_obligations(ip, ctx, base, writes):
    obs = []
    for j, w in enumerate(writes):
        ok = ip.call_function(func("spec.frame_ok"), [w], {}, ctx)
        obs.append(Obligation(f"{base}/write[{j}]/frame_ok", ctx, ip.truth(ok, ctx)))
    return obs


def units(tier):
    u = {}
    for name, op in ops().items():
        for v in range(op.variants):
            def fn(ip, ctx, op=op, v=v):
                run = run_op(ip, ctx, op, v, ("ge", 12), 0 if op.name in QUERIES else ("ge", 0))
                ctx._run = run
                base = f"{PROP}/{op.name}" + (f"/v{v}" if op.variants > 1 else "")
                obs = frame_obligations(ip, ctx, base, run["writes"])
                obs.append(Obligation(base + "/login_written", ctx, len(run["writes"]) >= 1))
                return obs
            nm = name + (f"_v{v}" if op.variants > 1 else "")
            u[nm] = Unit(nm, PROP, fn, functions=[op.qual(), API + "SwitcherApi._login"], witness=op_witness(PROP, op, v))
    from .deps import contract_units
    u.update(contract_units(PROP))
    try:
        from .breeze import breeze_units
        u.update(breeze_units(PROP, "C01"))
    except ImportError:
        pass

    def canary(ip, ctx):
        run = run_op(ip, ctx, ops()["stop"], 0, ("ge", 12), ("ge", 0))
        w = run["writes"][1]
        return [Obligation(PROP + "/_canary/length_byte_is_zero", ctx, ip.equals(ip.getitem(w, 2, ctx), 0, ctx))]
    u["_canary"] = Unit("_canary", PROP, canary)
    return u


QUICK_WITNESSES = 150


def replay_case(o):
    i = o.get("inputs") or {}
    name = o["name"].split("/")
    if "_canary" in o["name"]:
        return {"prop": PROP, "kind": "canary", "inputs": i}
    if name[1].startswith("dep_") or "R1" not in i:
        return None
    op = ops().get(name[1])
    if op is None:
        return None
    return {"prop": PROP, "kind": "op_check", "op": op.method, "api": op.kind, "inputs": i}


def search_cases(o, seed):
    if "control_breeze_device" in o["name"]:
        return [{"prop": PROP, "kind": "breeze_sweep", "inputs": {"seed": seed, "n": 600}}]
    return [{"prop": PROP, "kind": "sweep", "inputs": {"seed": seed, "n": 600}}]


def native_cases(tier, seed):
    return [{"prop": PROP, "kind": "sweep", "inputs": {"seed": seed, "n": 600 if tier == "quick" else 20000}},
            {"prop": PROP, "kind": "breeze_sweep", "inputs": {"seed": seed, "n": 400 if tier == "quick" else 20000}}]
