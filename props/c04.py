"""C04 - the signature is the protocol's double CRC-16 for every byte string (DESIGN.md 4/C04)"""
import z3

from pyvc.sym import Seq, Elems
from pyvc.engine import Unit, Obligation, outcome_of, concretise
from .common import equiv_unit, hex_or_not_str, func, sym_outcome

PROP = "C04"
Q = "aioswitcher.device.tools.sign_packet_with_crc_key"
MIN_OBLIGATIONS = 10
ASSUMPTIONS = [
    "binascii.crc_hqx(data, 0x1021) equals the bitwise CRC-16/CCITT (poly 0x1021, MSB first) of the specification: "
    "assumed through the fold contract; validated natively (one-byte step on 2^16 x 6 (quick) / all 2^24 (thorough) "
    "state/byte pairs, fold law on random splits, signer vs bitwise spec on every string of length 0..2 and random strings)",
]
ENUMERATED = ["character-level units: every string of 0..6 characters (symbolic code points)"]
EXPLANATION = ("sign_packet_with_crc_key is executed symbolically from its AST on a string of symbolic length; its outcome "
               "(value or exception) must agree with contracts/spec.py:sign_spec on every path")


def units(tier):
    u = {}

    def mk_sym(ctx):
        p, _ = hex_or_not_str(ctx, "p", 0, 1 << 20)
        return [p]
    u["sign"] = equiv_unit(PROP, "sign", Q, "sign_spec", mk_sym, kind="sign")
    for n in range(0, 7):
        def mk_fixed(ctx, n=n):
            ts = [z3.Int(f"c{i}") for i in range(n)]
            for t in ts:
                ctx.fact(z3.And(t >= 0, t <= 0x10FFFF, z3.Or(t < 0xD800, t > 0xDFFF)))
            p = Seq('str', [Elems(ts)]) if n else ""
            ctx.inputs["p"] = p
            return [p]
        u[f"sign_len{n}"] = equiv_unit(PROP, f"sign_len{n}", Q, "sign_spec", mk_fixed, kind="sign")

    def canary(ip, ctx):
        p, H = hex_or_not_str(ctx, "p", 0, 64)
        ctx.assume(H)
        ctx.assume(p.length() % 2 == 0)
        ob = outcome_of(lambda: ip.call_function(func(Q), [p], {}, ctx))
        assert ob[0] == "ret"
        return [Obligation(PROP + "/_canary/sign", ctx, ip.equals(ob[1], ip.add(p, "00000000", ctx), ctx))]
    u["_canary"] = Unit("_canary", PROP, canary)
    return u


def replay_case(o):
    if "inputs" not in o or "p" not in o["inputs"]:
        return None
    return {"prop": PROP, "kind": "sign_canary" if "_canary" in o["name"] else "sign", "inputs": {"p": o["inputs"]["p"]}}


def search_cases(o, seed):
    return [{"prop": PROP, "kind": "sweep", "inputs": {"seed": seed, "n": 2000}}]


def native_cases(tier, seed):
    cases = [{"prop": PROP, "kind": "sweep", "inputs": {"seed": seed, "n": 3000 if tier == "quick" else 50000}},
             {"prop": PROP, "kind": "bitflips", "inputs": {}}, {"prop": PROP, "kind": "wrapped", "inputs": {}}, {"prop": PROP, "kind": "threads", "inputs": {"rounds": 4000 if tier == "quick" else 40000}},
             {"prop": PROP, "kind": "short_exhaustive", "inputs": {"maxlen": 1 if tier == "quick" else 2}},
             {"prop": PROP, "kind": "crc_step", "inputs": {"bytes": 6 if tier == "quick" else 256, "seed": seed}},
             {"prop": PROP, "kind": "crc_fold", "inputs": {"seed": seed, "n": 500 if tier == "quick" else 100000}}]
    return cases
