"""C16 - thermostat control changes only what was asked (DESIGN.md 4/C16)"""
from .common import frame_ok as _frame_ok
import z3

from pyvc.engine import Unit, Obligation
from .breeze import breeze_units, breeze_interp, run_breeze, request_shapes
from .deps import contract_units

PROP = "C16"
MIN_OBLIGATIONS = 2000
ASSUMPTIONS = [
    "IR code set: uninterpreted membership/value functions (every set); obligations about the IR command are stated when a "
    "candidate key exists in the set (the statement is silent otherwise)",
    "the current-state reply is a well-formed thermostat reply with an 8-character remote id, every field symbolic; "
    "SwitcherThermostatStateResponse is used through its contract (re-proved in this run: dep_thermostat_response)",
    "signer and set_message_length through their contracts (re-proved in this run)",
    "E6 stream environment; device id/key lower-case hex; 0 <= time.time() < 2^32 - 1; target temperature argument 0..255",
]
ENUMERATED = ["3 x 6 x 5 x 3 request shapes x update-only flag x separate-swing flag = 1,080 (complete)", "toggle / non-toggle remote",
              "command reply and swing reply: empty / non-empty", "current state, temperatures, replies, IR texts: solver variables"]
EXPLANATION = ("control_breeze_device executed from the AST for every request shape; the frames written must be exactly: login, state "
               "query (iff something actionable was requested), the update frame or the IR command frame built from the requested "
               "values merged with the values the device just reported, and the separate swing command iff applicable; outcome "
               "clauses: RuntimeError when nothing actionable / a reply is empty, never success after an empty reply")


def interp_for(unit):
    return breeze_interp()


def units(tier):
    u = breeze_units(PROP, "C16")
    u.update(contract_units(PROP, which=("sign", "setlen")))

    def frame(ip, ctx):
        """control_breeze_device relies on build_command being a function of its arguments and the remote's IR data: it must
        assign nothing on the remote (no cache, no remembered state) and read no clock -- otherwise a second call with the same
        merged settings could send a stale command"""
        from .c15 import make_remote
        from .breeze import E
        State, Mode, Fan, Swing = E("DeviceState"), E("ThermostatMode"), E("ThermostatFanLevel"), E("ThermostatSwing")
        import itertools
        shapes = list(itertools.product([False, True], list(State), list(Mode), [None] + list(State)))
        toggle, state, mode, prev = shapes[ctx.fork(len(shapes))]
        remote, W, mint, maxt = make_remote(ip, ctx, toggle, list(Mode))
        from .common import sym_int, func
        t = sym_int(ctx, "target", -1000, 1000)
        ip.no_contract_for = {"aioswitcher.api.remotes.SwitcherBreezeRemote.build_command"}
        from pyvc.engine import outcome_of
        ob = outcome_of(lambda: ip.call_function(func("aioswitcher.api.remotes.SwitcherBreezeRemote.build_command"),
                                                 [remote, state, mode, t, Fan.LOW, Swing.ON, prev], {}, ctx))
        base = f"{PROP}/build_command_frame/{'toggle' if toggle else 'plain'}_{state.name}_{mode.name}_prev{prev.name if prev else 'None'}"
        return [Obligation(base + "/assigns_nothing_reads_no_clock", ctx, _frame_ok(ctx)[0] and
                           not ctx.ghost.clock_reads, note=str([(repr(o), a) for o, a in ctx.ghost.heap_writes][:2]))]
    u["build_command_frame"] = Unit("build_command_frame", PROP, frame, functions=["aioswitcher.api.remotes.SwitcherBreezeRemote.build_command"])

    def failures(ip, ctx):
        # empty login reply / empty or unparsable state reply: RuntimeError, no further frame
        shapes = [s for s in request_shapes() if s[0] is not None and not s[4] and not s[5]][:6]
        shape = shapes[ctx.fork(len(shapes))]
        which = ctx.fork(2)
        if which == 0:
            run = run_breeze(ip, ctx, shape, r1=0, r2=0)
            n = 1
            label = "empty_login_reply"
        else:
            run = run_breeze(ip, ctx, shape, r2=0)
            n = 2
            label = "empty_state_reply"
        ob = run["outcome"]
        base = f"{PROP}/control_breeze_device/{label}"
        return [Obligation(base + "/raises_RuntimeError", ctx, ob[0] == "exc" and ob[1].cls == "RuntimeError"),
                Obligation(base + "/no_further_frame", ctx, len(run["writes"]) == n, note=f"{len(run['writes'])} frames")]
    u["failures"] = Unit("failures", PROP, failures)

    def canary(ip, ctx):
        shape = [s for s in request_shapes() if s[0] is not None and s[1] is None and s[4] and not s[5]][0]
        run = run_breeze(ip, ctx, shape, r3=("ge", 1))
        if len(run["writes"]) < 3:
            return []
        w = run["writes"][2]
        # false claim: the mode byte of the update frame is always COOL (04)
        return [Obligation(PROP + "/_canary/mode_always_cool", ctx, ip.equals(ip.getitem(w, 87, ctx), 4, ctx))]
    u["_canary"] = Unit("_canary", PROP, canary, params={"may_be_empty": True})
    return u


def replay_case(o):
    if "_canary" in o["name"]:
        return {"prop": PROP, "kind": "canary", "inputs": {}}
    return None


def search_cases(o, seed):
    return [{"prop": PROP, "kind": "sweep", "inputs": {"seed": seed, "n": 1500}}, {"prop": PROP, "kind": "repeats", "inputs": {"seed": seed, "n": 150}},
            {"prop": PROP, "kind": "stale", "inputs": {"seed": seed, "n": 60}}]


def native_cases(tier, seed):
    return [{"prop": PROP, "kind": "sweep", "inputs": {"seed": seed, "n": 1500 if tier == "quick" else 40000}},
            {"prop": PROP, "kind": "repeats", "inputs": {"seed": seed, "n": 150 if tier == "quick" else 5000}},
            {"prop": PROP, "kind": "stale", "inputs": {"seed": seed, "n": 60 if tier == "quick" else 2000}}]
