"""C13 - the next-run text names the earliest upcoming run of the schedule (DESIGN.md 4/C13)"""
import itertools
import z3

from pyvc.sym import PySet, simp
from pyvc.engine import Unit, Obligation, outcome_of, equiv_obligations, concretise
from pyvc.timemodels import TimeStr, clock
from .common import func, sym_outcome, P

PROP = "C13"
Q = "aioswitcher.schedule.tools.pretty_next_run"
MIN_OBLIGATIONS = 896
ASSUMPTIONS = ["datetime model: now()/utcnow() are clock symbols (day, second of day); LOCAL = UTC + OFFSET with OFFSET a free "
               "multiple of 60 s in [-12 h, +14 h]; weekday = (day + 3) mod 7; strftime/strptime('%H:%M') round trip; "
               "cross-checked natively under a patched clock",
               "a set's iteration order is unspecified: code whose result depends on it is reported out of subset"]
ENUMERATED = ["7 local weekdays x 128 day sets (complete)", "start time, clock minute, UTC offset: solver variables"]
EXPLANATION = ("pretty_next_run executed from the AST for every (local weekday, day set) with symbolic start time, clock and "
               "UTC offset; text must equal spec.next_run_spec evaluated on the LOCAL clock")


def Days():
    return P().real["aioswitcher.schedule"].Days


def all_sets():
    members = list(Days())
    out = []
    for size in range(0, 8):
        for combo in itertools.combinations(members, size):
            out.append(combo)
    return out


def setup(ip, ctx, cw, combo):
    start = TimeStr("start", ctx)
    ctx.assume(start.valid())
    utc = clock(ctx, "utc")
    off = clock(ctx, "offset")
    loc = clock(ctx, "local")
    ctx.assume(loc.wd == cw)
    days = PySet(combo)
    ctx.inputs.update({"start": start, "days": days, "uday": utc.day, "usod": utc.sod, "offset": off})
    return start, days, simp(60 * loc.hms[0] + loc.hms[1])


def units(tier):
    sets = all_sets()
    u = {}
    NCH = 8
    for cw, ch in itertools.product(range(7), range(NCH)):
        chunk = sets[ch::NCH]

        def fn(ip, ctx, cw=cw, chunk=chunk):
            k = ctx.fork(len(chunk))
            combo = chunk[k]
            start, days, now_minute = setup(ip, ctx, cw, combo)
            ob = outcome_of(lambda: ip.call_function(func(Q), [start, days], {}, ctx))
            ctx._code_outcome = ob
            # the specification is evaluated on its own copy of the day set; the caller's set must come back unchanged
            os_ = outcome_of(lambda: ip.call_function(func("spec.next_run_spec"), [start, PySet(combo), cw, now_minute], {}, ctx))
            tag = "".join(str(list(Days()).index(x)) for x in combo) or "none"
            return equiv_obligations(ip, ctx, f"{PROP}/weekday{cw}/days_{tag}", ob, os_) + [
                Obligation(f"{PROP}/weekday{cw}/days_{tag}/the_callers_day_set_is_unchanged", ctx, isinstance(days, PySet) and set(days.s) == set(combo),
                           note=f"{sorted(getattr(d, 'name', str(d)) for d in days.s)}"),
                # 'for any current local date and time': one reading of the clock - two readings can straddle midnight, and the
                # text would then be right for neither instant (the model's clock does not advance between readings, so this is
                # an obligation of its own)
                Obligation(f"{PROP}/weekday{cw}/days_{tag}/the_clock_is_read_once", ctx, len(ctx.ghost.clock_reads) <= 1,
                           note=str(ctx.ghost.clock_reads[:4]))]

        def wit(ctx, model):
            return {"case": {"prop": PROP, "kind": "one", "inputs": {k: concretise(v, model) for k, v in ctx.inputs.items()}},
                    "expect": sym_outcome(ctx._code_outcome, model, ctx)}
        u[f"weekday{cw}_{ch}"] = Unit(f"weekday{cw}_{ch}", PROP, fn, functions=[Q], witness=wit)

    def canary(ip, ctx):
        members = list(Days())
        start, days, now_minute = setup(ip, ctx, 2, (members[2],))
        ob = outcome_of(lambda: ip.call_function(func(Q), [start, days], {}, ctx))
        return [Obligation(PROP + "/_canary/always_today", ctx, ip.equals(ob[1], ip.add("Due today at ", start, ctx), ctx))]
    u["_canary"] = Unit("_canary", PROP, canary)
    return u


QUICK_WITNESSES = 300


def replay_case(o):
    i = o.get("inputs") or {}
    if "start" not in i:
        return None
    return {"prop": PROP, "kind": "canary" if "_canary" in o["name"] else "one", "inputs": i}


def search_cases(o, seed):
    return [{"prop": PROP, "kind": "table", "inputs": {"seed": seed, "zones": [0, 14 * 3600, -12 * 3600, 19800], "minutes": 6}}]


def native_cases(tier, seed):
    zones = [0, 14 * 3600, -12 * 3600, 19800] if tier == "quick" else [0, 14 * 3600, -12 * 3600, 19800, 3600, -5 * 3600, 45 * 900]
    return [{"prop": PROP, "kind": "table", "inputs": {"seed": seed, "zones": zones, "minutes": 4 if tier == "quick" else 12}},
            {"prop": PROP, "kind": "ticking", "inputs": {}}]
