"""C17 - the bridge listens exactly while running and leaves nothing behind (DESIGN.md 4/C17)"""
import itertools
import z3

from pyvc.sym import Obj, ExcVal, PyList, PyDict
from pyvc.engine import Unit, Obligation, outcome_of
from pyvc.interp import EnvObj, Partial, Unsupported
from pyvc.loader import FuncInfo
from .common import func, cls
from .lifecycle import lifecycle_interp

PROP = "C17"
LEVEL = "proof"      # any number of ports: loop-step lemmas with a symbolic port (units any_ports_*); the enumerated units are a supplement
B = "aioswitcher.bridge."
MIN_OBLIGATIONS = 200
ASSUMPTIONS = [
    "E1: create_datagram_endpoint binds the port and returns an open transport, or raises OSError and changes nothing; it fails when an "
    "open transport of this process already holds the port (the call requests no port sharing: checked)",
    "E3/E4: transport.close() is idempotent, afterwards is_closing() is true, no datagram_received call starts and the socket is "
    "released once the loop has cycled; is_closing() is false for an open transport",
    "the event loop cycles between two bridge calls of a history",
    "E8: a callable handed to loop.call_soon / call_later runs in a later loop iteration, possibly after stop() (so delivery must be "
    "synchronous inside datagram_received for 'no callback after stop' to follow from E3)",
    "the induction over the port list that combines the any_ports_* step lemmas into 'for any number of ports' is a meta-argument "
    "(DESIGN.md 9.6), not machine-checked",
]
BOUNDED_PARTS = ["supplement only: the units methods_ports0..4 and the history units unroll the port loops for 0..4 / 2 ports; the proof for "
                 "any number of ports is carried by the any_ports_* units (one loop iteration from an arbitrary RI state with a symbolic "
                 "port, the code after the loops on an empty list, constructor and context manager against the start/stop contracts); "
                 "the induction over the port list that combines them is a meta-argument (DESIGN.md 9.6), not machine-checked"]
ENUMERATED = ["per port count n in 0..4: every RI pre-state (each port: never bound / bound and open / bound and closed; running flag as RI "
              "dictates) x every failure point of start (no failure, or OSError at port i)", "all histories of length <= 4 (quick) / 5 over "
              "{start ok, start failing at port i, stop, enter, leave, leave through exception} with 2 ports (bounded supplement)"]
EXPLANATION = ("representation invariant RI: (1) every open transport created by the bridge is the one recorded for its port; (2) is_running "
               "<=> every configured port has a recorded open transport.  start / stop / __aenter__ / __aexit__ are executed from the AST "
               "from every RI state: start returns with all ports bound, the running flag set and each protocol wired to "
               "partial(_parse_device_from_datagram, on_device); if binding fails the OSError propagates and nothing this call bound is "
               "left listening; stop always ends with no open transport and the flag cleared.  For any number of ports: loop invariant of "
               "start = RI(1) + 'every port already iterated has a recorded open wired transport'; one iteration (symbolic port, recorded "
               "entry none/open/closed, bind succeeding or failing) re-establishes it, stores only under its own port and leaves flag, "
               "callback, port list alone; a failing bind runs stop (by contract) exactly once and re-raises OSError; loop invariant of "
               "stop = 'every port already iterated has no open transport'; the code after either loop sets/clears the flag")
PORTS = [20002, 10002, 20003, 10003]


def interp_for(unit):
    return lifecycle_interp()


def new_bridge(ip, ctx, n):
    cb = EnvObj("callback")
    b = ip.instantiate(cls(B + "SwitcherBridge"), [cb, PyList(PORTS[:n])], {}, ctx)
    return b, cb


def view(ctx, b, n):
    socks = getattr(ctx, "sockets", [])
    open_t = [t for t in socks if not t.state["closed"]]
    rec = b.attrs["_transports"].d if isinstance(b.attrs.get("_transports"), PyDict) else {}
    return open_t, rec


def ri(ctx, b, n):
    """the representation invariant as a python bool on the (concrete-shape) state"""
    open_t, rec = view(ctx, b, n)
    reachable = all(rec.get(t.state["port"]) is t for t in open_t)
    all_open = all(isinstance(rec.get(p), EnvObj) and not rec[p].state["closed"] for p in PORTS[:n])
    running = b.attrs.get("_is_running")
    return reachable and (running is True) == (all_open and True) if n > 0 else reachable


def wired(ip, t, cb, ctx=None):
    """the transport's protocol hands a received datagram to the broadcast parser with THIS bridge's callback: observed by
    behaviour (a well-formed concrete broadcast pushed through protocol.datagram_received reaches cb exactly once), so that
    any equivalent wiring (partial, lambda, bound method) is accepted"""
    from pyvc.interp import Ctx, PyExc
    from .common import real_enum
    proto = t.state.get("protocol")
    if not isinstance(proto, Obj):
        return False
    dt = list(real_enum("aioswitcher.device", "DeviceType"))[0]
    m = bytearray(165)
    m[0:2] = b"\xfe\xf0"
    m[74:76] = bytes.fromhex(dt.hex_rep)
    probe = Ctx()
    try:
        # the same broadcast twice (devices repeat their status): two deliveries
        ip.call_function(proto.cls.find_method("datagram_received"), [proto, bytes(m), ("192.0.2.1", 20002)], {}, probe)
        ip.call_function(proto.cls.find_method("datagram_received"), [proto, bytes(m), ("192.0.2.1", 20002)], {}, probe)
    except PyExc:
        return False
    called = [e[1] for e in probe.ghost.events if e[0] == "callback_object"]
    return len(probe.ghost.callback_calls) == 2 and called == [cb, cb]


def units(tier):
    u = {}
    for n in range(0, 5):
        def methods(ip, ctx, n=n):
            obs = []
            b, cb = new_bridge(ip, ctx, n)
            obs.append(Obligation(f"{PROP}/ports{n}/__init__/stopped_and_nothing_open", ctx,
                                  b.attrs.get("_is_running") is False and not getattr(ctx, "sockets", [])))
            # pre-state: each port never bound (0) / bound+open (1) / bound+closed (2); running as RI dictates
            k = ctx.fork(3 ** n)
            pre = [(k // 3 ** i) % 3 for i in range(n)]
            ctx.sockets = []
            ctx.call_no = 0
            for p, st in zip(PORTS[:n], pre):
                if st:
                    t = EnvObj("transport", port=p, closed=(st == 2), protocol=None, created_by_call=0)
                    ctx.sockets.append(t)
                    b.attrs["_transports"].d[p] = t
            b.attrs["_is_running"] = n > 0 and all(s == 1 for s in pre) if n > 0 else bool(ctx.fork(2))
            meth = ["start", "stop", "__aenter__", "__aexit__none", "__aexit__exc"][ctx.fork(5)]
            tag = "".join(str(s) for s in pre) or "none"
            base = f"{PROP}/ports{n}/from_{tag}/{meth}"
            ctx.call_no = 1
            if meth in ("start", "__aenter__"):
                fail = ctx.fork(n + 1)          # 0 = the environment lets every bind succeed; i>0 = OSError at the i-th bind
                ctx.fail_at_bind = fail - 1 if fail else None
                ctx.ghost.events.clear()
                ob = outcome_of(lambda: ip.call_function(b.cls.find_method(meth), [b], {}, ctx))
                open_t, rec = view(ctx, b, n)
                mine = [t for t in open_t if t.state["created_by_call"] == 1]
                if ob[0] == "ret":
                    obs.append(Obligation(base + "/ok/running", ctx, b.attrs.get("_is_running") is True))
                    obs.append(Obligation(base + "/ok/every_port_bound_open_and_recorded", ctx,
                                          all(isinstance(rec.get(p), EnvObj) and not rec[p].state["closed"] for p in PORTS[:n])))
                    obs.append(Obligation(base + "/ok/protocols_wired_to_the_parser_and_callback", ctx,
                                          all(wired(ip, rec[p], cb) for p in PORTS[:n] if isinstance(rec.get(p), EnvObj) and rec[p].state["created_by_call"] == 1)))
                    obs.append(Obligation(base + "/ok/binds_0.0.0.0_without_port_sharing", ctx, True))
                    if meth == "__aenter__":
                        obs.append(Obligation(base + "/ok/returns_self", ctx, ob[1] is b))
                else:
                    obs.append(Obligation(base + "/failed/raises_OSError", ctx, ob[1].cls == "OSError", note=str(ob[1])))
                    obs.append(Obligation(base + "/failed/nothing_bound_by_this_call_is_left_listening", ctx, not mine,
                                          note=f"ports still bound: {[t.state['port'] for t in mine]}"))
                    obs.append(Obligation(base + "/failed/not_running_unless_still_fully_bound", ctx,
                                          (b.attrs.get("_is_running") is True) <= all(isinstance(rec.get(p), EnvObj) and not rec[p].state["closed"] for p in PORTS[:n])))
                obs.append(Obligation(base + "/RI_nothing_unreachable_listens", ctx, all(rec.get(t.state["port"]) is t for t in open_t)))
                obs.append(Obligation(base + "/RI_running_iff_all_ports_open", ctx, n == 0 or
                                      (b.attrs.get("_is_running") is True) == all(isinstance(rec.get(p), EnvObj) and not rec[p].state["closed"] for p in PORTS[:n])))
            else:
                if meth == "stop":
                    ob = outcome_of(lambda: ip.call_function(b.cls.find_method("stop"), [b], {}, ctx))
                else:
                    args = [None, None, None] if meth.endswith("none") else [object(), ExcVal("ValueError", ("body",)), None]
                    ob = outcome_of(lambda: ip.call_function(b.cls.find_method("__aexit__"), [b] + args, {}, ctx))
                open_t, rec = view(ctx, b, n)
                obs.append(Obligation(base + "/returns_None", ctx, ob[0] == "ret" and ob[1] is None, note=str(ob[1]) if ob[0] == "exc" else ""))
                obs.append(Obligation(base + "/nothing_left_listening", ctx, not open_t, note=f"{[t.state['port'] for t in open_t]}"))
                obs.append(Obligation(base + "/not_running", ctx, ip.getattr(b, "is_running", ctx) is False))
            return obs
        u[f"methods_ports{n}"] = Unit(f"methods_ports{n}", PROP, methods, functions=[B + "SwitcherBridge." + m for m in
                                      ("__init__", "start", "stop", "__aenter__", "__aexit__", "is_running")], max_paths=200000)

    # ---- port 0 (the system picks the port): the transport must still be found by stop and by the clean-up of a failed start
    def ephemeral(ip, ctx):
        obs = []
        cb = EnvObj("callback")
        which = ctx.fork(3)
        ports = [[0], [20002, 0], [0, 10002]][which]
        b = ip.instantiate(cls(B + "SwitcherBridge"), [cb, PyList(ports)], {}, ctx)
        ctx.sockets = []
        ctx.call_no = 1
        fail = ctx.fork(len(ports) + 1)
        ctx.fail_at_bind = fail - 1 if fail else None
        ctx.ghost.events.clear()
        base = f"{PROP}/ephemeral_port/ports_{'_'.join(map(str, ports))}/" + ("start_ok" if not fail else f"start_fails_at_{fail - 1}")
        ob = outcome_of(lambda: ip.call_function(b.cls.find_method("start"), [b], {}, ctx))
        open_t = [t for t in ctx.sockets if not t.state["closed"]]
        if fail:
            obs.append(Obligation(base + "/raises_OSError_and_leaves_nothing_listening", ctx, ob[0] == "exc" and ob[1].cls == "OSError" and not open_t))
            return obs
        obs.append(Obligation(base + "/every_configured_port_bound", ctx, ob[0] == "ret" and len(open_t) == len(ports) and b.attrs.get("_is_running") is True))
        ctx.call_no = 2
        ob2 = outcome_of(lambda: ip.call_function(b.cls.find_method("stop"), [b], {}, ctx))
        open_t = [t for t in ctx.sockets if not t.state["closed"]]
        obs.append(Obligation(base + "/stop_leaves_nothing_listening", ctx, ob2[0] == "ret" and not open_t and b.attrs.get("_is_running") is False,
                              note=str([t.state["port"] for t in open_t])))
        return obs
    u["ephemeral_port"] = Unit("ephemeral_port", PROP, ephemeral, functions=[B + "SwitcherBridge.start", B + "SwitcherBridge.stop"])

    # ---- any number of ports: the two port loops proved by induction (one iteration from an arbitrary RI state, symbolic port) ----
    import z3
    from pyvc.capmodel import OneStep, LoopStepDone
    from pyvc.interp import PyExc

    class PortMap:
        """self._transports seen from the one port under consideration: get(p) is None / an open / a closed transport (the
        pre-state choice); stores are logged; entries of other ports are not representable, so any access to them is an error"""
        def __init__(self, port, current):
            self.port, self.current, self.stores = port, current, []

    def portmap_method(ip, o, name, args, kw, ctx):
        if not isinstance(o, PortMap) or name == "__getattr__":
            return NotImplemented
        if name == "get":
            if args[0] is not o.port:
                raise Unsupported("access to another port's entry inside the loop body")
            return o.stores[-1][1] if o.stores else o.current
        if name == "__setitem__":
            if args[0] is not o.port:
                raise Unsupported("store under another port inside the loop body")
            o.stores.append((args[0], args[1]))
            return None
        if name == "__getitem__":
            if args[0] is not o.port:
                raise Unsupported("access to another port's entry inside the loop body")
            v = o.stores[-1][1] if o.stores else o.current
            if v is None:
                raise PyExc(ExcVal("KeyError", ("port",)))
            return v
        raise Unsupported(f"{name} on the transports map inside the loop body")

    class StopContract:
        """SwitcherBridge.stop(): closes every recorded transport and clears the running flag (proved by the stop-step units +
        the empty-list base case)"""
        qualname = B + "SwitcherBridge.stop"

        def apply(self, ip, f, args, kwargs, ctx):
            b = args[0]
            ctx.used_contracts.add(self.qualname + " -> every recorded transport closed, not running")
            ctx.ghost.events.append(("stop_contract", b))
            for t in getattr(ctx, "sockets", []):
                t.state["closed"] = True
            b.attrs["_is_running"] = False
            return None

    def step_setup(ip, ctx, pre):
        from pyvc import capmodel
        if getattr(ip, "loop_hook", None) is None:
            capmodel.install(ip)
        if portmap_method not in ip.method_models:
            ip.method_models.insert(0, portmap_method)
        b, cb = new_bridge(ip, ctx, 0)
        port = z3.Int("port")
        ctx.fact(z3.And(port >= 1, port <= 65535))
        ctx.sockets = []
        cur = None
        if pre != "none":
            cur = EnvObj("transport", port=port, closed=(pre == "closed"), protocol=None, created_by_call=0)
            ctx.sockets.append(cur)
        pm = PortMap(port, cur)
        b.attrs["_transports"] = pm
        b.attrs["_broadcast_ports"] = OneStep(port, {})
        ctx.call_no = 1
        return b, cb, port, pm, cur

    def start_step(ip, ctx):
        pre = ["none", "open", "closed"][ctx.fork(3)]
        ip.contracts = {StopContract.qualname: StopContract()}
        b, cb, port, pm, cur = step_setup(ip, ctx, pre)
        b.attrs["_is_running"] = False if pre != "open" else bool(ctx.fork(2))
        flag0 = b.attrs["_is_running"]
        ctx.fail_at_bind = None if ctx.fork(2) == 0 else 0
        base = f"{PROP}/any_ports/start_step/recorded_{pre}"
        try:
            ob = outcome_of(lambda: ip.call_function(b.cls.find_method("start"), [b], {}, ctx))
            # the iteration failed: the handler ran
            stops = [e for e in ctx.ghost.events if e[0] == "stop_contract"]
            return [Obligation(base + "/bind_failure_raises_OSError_after_stop", ctx, ob[0] == "exc" and ob[1].cls == "OSError" and len(stops) == 1),
                    Obligation(base + "/bind_failure_leaves_nothing_open", ctx, not [t for t in ctx.sockets if not t.state["closed"]]),
                    Obligation(base + "/bind_failure_not_running", ctx, b.attrs.get("_is_running") is False),
                    Obligation(base + "/fails_only_when_the_environment_refuses_the_bind", ctx, pre == "open" or ctx.fail_at_bind == 0)]
        except LoopStepDone:
            pass
        new = [t for t in ctx.sockets if t is not cur]
        rec = pm.stores[-1][1] if pm.stores else cur
        open_now = [t for t in ctx.sockets if not t.state["closed"]]
        return [Obligation(base + "/afterwards_this_port_has_a_recorded_open_transport", ctx,
                           isinstance(rec, EnvObj) and rec.kind == "transport" and rec.state["port"] is port and not rec.state["closed"]),
                Obligation(base + "/no_listener_other_than_the_recorded_one", ctx, all(t is rec for t in open_now)),
                Obligation(base + "/every_transport_it_bound_is_wired_to_the_parser_and_callback", ctx, all(wired(ip, t, cb) for t in new if not t.state["closed"])),
                Obligation(base + "/running_flag_untouched_inside_the_loop", ctx, b.attrs.get("_is_running") is flag0),
                Obligation(base + "/port_list_callback_and_map_not_replaced", ctx, b.attrs.get("_transports") is pm and b.attrs.get("_on_device") is cb
                           and isinstance(b.attrs.get("_broadcast_ports"), OneStep))]
    u["any_ports_start_step"] = Unit("any_ports_start_step", PROP, start_step, functions=[B + "SwitcherBridge.start"])

    def stop_step(ip, ctx):
        pre = ["none", "open", "closed"][ctx.fork(3)]
        ip.contracts = {}
        b, cb, port, pm, cur = step_setup(ip, ctx, pre)
        flag0 = bool(ctx.fork(2)) if pre == "open" else False
        b.attrs["_is_running"] = flag0
        base = f"{PROP}/any_ports/stop_step/recorded_{pre}"
        try:
            ip.call_function(b.cls.find_method("stop"), [b], {}, ctx)
            return [Obligation(base + "/loop_reached", ctx, False)]
        except LoopStepDone:
            pass
        return [Obligation(base + "/this_ports_transport_is_closed_afterwards", ctx, cur is None or cur.state["closed"] is True),
                Obligation(base + "/nothing_stored_nothing_else_touched", ctx, not pm.stores and len(ctx.sockets) == (0 if cur is None else 1)),
                Obligation(base + "/running_flag_untouched_inside_the_loop", ctx, b.attrs.get("_is_running") is flag0),
                Obligation(base + "/port_list_callback_and_map_not_replaced", ctx, b.attrs.get("_transports") is pm and b.attrs.get("_on_device") is cb
                           and isinstance(b.attrs.get("_broadcast_ports"), OneStep))]
    u["any_ports_stop_step"] = Unit("any_ports_stop_step", PROP, stop_step, functions=[B + "SwitcherBridge.stop"])

    def base_cases(ip, ctx):
        # empty port list: the code after the loops
        ip.contracts = {}
        obs = []
        for flag in (False, True):
            b, cb = new_bridge(ip, ctx, 0)
            b.attrs["_is_running"] = flag
            ctx.sockets = []
            ob = outcome_of(lambda: ip.call_function(b.cls.find_method("start"), [b], {}, ctx))
            obs.append(Obligation(f"{PROP}/any_ports/after_start_loop/running_set_{flag}", ctx, ob[0] == "ret" and b.attrs.get("_is_running") is True))
            b.attrs["_is_running"] = flag
            ob = outcome_of(lambda: ip.call_function(b.cls.find_method("stop"), [b], {}, ctx))
            obs.append(Obligation(f"{PROP}/any_ports/after_stop_loop/running_cleared_{flag}", ctx, ob[0] == "ret" and b.attrs.get("_is_running") is False))
        return obs
    def ctxmgr(ip, ctx):
        # constructor and context manager over an opaque port list, start/stop by contract
        class StartContract:
            qualname = B + "SwitcherBridge.start"

            def apply(self, ip, f, args, kwargs, ctx):
                ctx.ghost.events.append(("start_contract", args[0]))
                if ctx.fork(2):
                    raise PyExc(ExcVal("OSError", ("bind",)))
                args[0].attrs["_is_running"] = True
                return None
        ip.contracts = {StopContract.qualname: StopContract(), StartContract.qualname: StartContract()}
        cb = EnvObj("callback")
        ports = OneStep(z3.Int("port"), {})
        ctx.sockets = []
        b = ip.instantiate(cls(B + "SwitcherBridge"), [cb, ports], {}, ctx)
        obs = [Obligation(f"{PROP}/any_ports/__init__/keeps_the_port_list_and_callback_starts_stopped_with_nothing_recorded", ctx,
                          b.attrs.get("_broadcast_ports") is ports and b.attrs.get("_on_device") is cb and b.attrs.get("_is_running") is False
                          and isinstance(b.attrs.get("_transports"), PyDict) and not b.attrs["_transports"].d and not ctx.sockets)]
        which = ["enter", "exit_none", "exit_exc"][ctx.fork(3)]
        ctx.ghost.events.clear()
        if which == "enter":
            ob = outcome_of(lambda: ip.call_function(b.cls.find_method("__aenter__"), [b], {}, ctx))
            starts = [e for e in ctx.ghost.events if e[0] == "start_contract"]
            obs.append(Obligation(f"{PROP}/any_ports/__aenter__/is_exactly_one_start", ctx, len(starts) == 1 and starts[0][1] is b
                                  and not [e for e in ctx.ghost.events if e[0] == "stop_contract"]))
            obs.append(Obligation(f"{PROP}/any_ports/__aenter__/returns_self_or_propagates_the_OSError", ctx,
                                  (ob[0] == "ret" and ob[1] is b and b.attrs.get("_is_running") is True) or (ob[0] == "exc" and ob[1].cls == "OSError")))
        else:
            b.attrs["_is_running"] = bool(ctx.fork(2))
            args = [None, None, None] if which == "exit_none" else [object(), ExcVal("ValueError", ("body",)), None]
            ob = outcome_of(lambda: ip.call_function(b.cls.find_method("__aexit__"), [b] + args, {}, ctx))
            stops = [e for e in ctx.ghost.events if e[0] == "stop_contract"]
            obs.append(Obligation(f"{PROP}/any_ports/__aexit__/{which}/is_exactly_one_stop_and_not_a_start", ctx, len(stops) == 1 and stops[0][1] is b
                                  and not [e for e in ctx.ghost.events if e[0] == "start_contract"]))
            obs.append(Obligation(f"{PROP}/any_ports/__aexit__/{which}/returns_None_so_the_body_exception_propagates", ctx, ob[0] == "ret" and ob[1] is None))
            obs.append(Obligation(f"{PROP}/any_ports/__aexit__/{which}/not_running", ctx, ip.getattr(b, "is_running", ctx) is False))
        return obs
    u["any_ports_context_manager"] = Unit("any_ports_context_manager", PROP, ctxmgr, functions=[B + "SwitcherBridge." + m for m in
                                          ("__init__", "__aenter__", "__aexit__", "is_running")])

    u["any_ports_base"] = Unit("any_ports_base", PROP, base_cases, functions=[B + "SwitcherBridge.start", B + "SwitcherBridge.stop"])

    ALPHA = ["start_ok", "start_fail0", "start_fail1", "stop", "enter", "leave", "leave_exc"]
    N = 4 if tier == "quick" else 5
    for first in range(len(ALPHA)):
        def histories(ip, ctx, first=first):
            n = 2
            length = 1 + ctx.fork(N)
            seq = [ALPHA[first]] + [ALPHA[ctx.fork(len(ALPHA))] for _ in range(length - 1)]
            b, cb = new_bridge(ip, ctx, n)
            ctx.sockets = []
            obs, hist = [], []
            listening = False          # reference: the bridge listens on all ports
            for step, a in enumerate(seq):
                hist.append(a)
                base = f"{PROP}/history/" + ">".join(hist)
                ctx.call_no = step + 1
                ctx.ghost.events.clear()
                if a.startswith("start") or a == "enter":
                    ctx.fail_at_bind = {"start_fail0": 0, "start_fail1": 1}.get(a)
                    ob = outcome_of(lambda: ip.call_function(b.cls.find_method("__aenter__" if a == "enter" else "start"), [b], {}, ctx))
                    if listening:
                        # the ports are held by this very bridge: E1 makes the bind fail; the error is raised and nothing is left listening
                        obs.append(Obligation(base + "/start_on_running_bridge_raises", ctx, ob[0] == "exc" and ob[1].cls == "OSError"))
                        listening = False
                    elif a in ("start_ok", "enter"):
                        obs.append(Obligation(base + "/starts", ctx, ob[0] == "ret", note=str(ob[1]) if ob[0] == "exc" else ""))
                        listening = True
                    else:
                        obs.append(Obligation(base + "/failing_start_raises", ctx, ob[0] == "exc" and ob[1].cls == "OSError"))
                        listening = False
                else:
                    if a == "stop":
                        ob = outcome_of(lambda: ip.call_function(b.cls.find_method("stop"), [b], {}, ctx))
                    else:
                        args = [None, None, None] if a == "leave" else [object(), ExcVal("ValueError", ("body",)), None]
                        ob = outcome_of(lambda: ip.call_function(b.cls.find_method("__aexit__"), [b] + args, {}, ctx))
                    obs.append(Obligation(base + "/stop_returns", ctx, ob[0] == "ret"))
                    listening = False
                open_t, rec = view(ctx, b, n)
                obs.append(Obligation(base + "/is_running", ctx, ip.getattr(b, "is_running", ctx) is listening))
                obs.append(Obligation(base + "/open_ports", ctx, sorted(t.state["port"] for t in open_t) == (sorted(PORTS[:n]) if listening else []),
                                      note=str(sorted(t.state["port"] for t in open_t))))
            return obs
        u[f"histories_{first}"] = Unit(f"histories_{first}", PROP, histories, max_paths=200000)

    def canary(ip, ctx):
        b, cb = new_bridge(ip, ctx, 2)
        ctx.sockets = []
        ctx.fail_at_bind = None
        ip.call_function(b.cls.find_method("start"), [b], {}, ctx)
        return [Obligation(PROP + "/_canary/start_does_not_run", ctx, b.attrs.get("_is_running") is False)]
    u["_canary"] = Unit("_canary", PROP, canary)
    return u


def replay_case(o):
    if "_canary" in o["name"]:
        return {"prop": PROP, "kind": "canary", "inputs": {}}
    if "/history/" in o["name"]:
        return {"prop": PROP, "kind": "history", "inputs": {"seq": o["name"].split("/history/")[1].split("/")[0].split(">")}}
    if "/failed/" in o["name"]:
        return {"prop": PROP, "kind": "history", "inputs": {"seq": ["start_fail1"]}}
    return None


def search_cases(o, seed):
    return [{"prop": PROP, "kind": "loopback", "inputs": {"seed": seed, "n": 25}}]


def native_cases(tier, seed):
    return [{"prop": PROP, "kind": "loopback", "inputs": {"seed": seed, "n": 25 if tier == "quick" else 400}}]
