"""C17 - the bridge listens exactly while running and leaves nothing behind (DESIGN.md 4/C17)"""
import itertools
import z3

from pyvc.sym import Obj, ExcVal, PyList, PyDict
from pyvc.engine import Unit, Obligation, outcome_of
from pyvc.interp import EnvObj, Partial
from pyvc.loader import FuncInfo
from .common import func, cls
from .lifecycle import lifecycle_interp

PROP = "C17"
LEVEL = "model_checking"      # the number of ports is enumerated (0..4): bounded in that parameter, not counted as proved
B = "aioswitcher.bridge."
MIN_OBLIGATIONS = 200
ASSUMPTIONS = [
    "E1: create_datagram_endpoint binds the port and returns an open transport, or raises OSError and changes nothing; it fails when an "
    "open transport of this process already holds the port (the call requests no port sharing: checked)",
    "E3/E4: transport.close() is idempotent, afterwards is_closing() is true, no datagram_received call starts and the socket is "
    "released once the loop has cycled; is_closing() is false for an open transport",
    "the event loop cycles between two bridge calls of a history",
]
BOUNDED_PARTS = ["number of configured ports: enumerated 0..4 (the default configuration has 4); the port loops of start/stop are "
                 "unrolled per count, not proved by an invariant for arbitrary n"]
ENUMERATED = ["per port count n in 0..4: every RI pre-state (each port: never bound / bound and open / bound and closed; running flag as RI "
              "dictates) x every failure point of start (no failure, or OSError at port i)", "all histories of length <= 4 (quick) / 5 over "
              "{start ok, start failing at port i, stop, enter, leave, leave through exception} with 2 ports (bounded supplement)"]
EXPLANATION = ("representation invariant RI: (1) every open transport created by the bridge is the one recorded for its port; (2) is_running "
               "<=> every configured port has a recorded open transport.  start / stop / __aenter__ / __aexit__ are executed from the AST "
               "from every RI state: start returns with all ports bound, the running flag set and each protocol wired to "
               "partial(_parse_device_from_datagram, on_device); if binding fails the OSError propagates and nothing this call bound is "
               "left listening; stop always ends with no open transport and the flag cleared")
PORTS = [20002, 10002, 20003, 10003]


def interp_for(unit):
    return lifecycle_interp()


def new_bridge(ip, ctx, n):
    cb = EnvObj("callback")
    b = ip.instantiate(cls(B + "SwitcherBridge"), [cb, PyList(PORTS[:n])], {}, ctx)
    return b, cb


def view(ctx, b, n):
    socks = getattr(ctx, "sockets", [])
    open_t = [t for t in socks if not t.state["closed"]]
    rec = b.attrs["_transports"].d if isinstance(b.attrs.get("_transports"), PyDict) else {}
    return open_t, rec


def ri(ctx, b, n):
    """the representation invariant as a python bool on the (concrete-shape) state"""
    open_t, rec = view(ctx, b, n)
    reachable = all(rec.get(t.state["port"]) is t for t in open_t)
    all_open = all(isinstance(rec.get(p), EnvObj) and not rec[p].state["closed"] for p in PORTS[:n])
    running = b.attrs.get("_is_running")
    return reachable and (running is True) == (all_open and True) if n > 0 else reachable


def wired(ip, t, cb, ctx=None):
    """the transport's protocol hands a received datagram to the broadcast parser with THIS bridge's callback: observed by
    behaviour (a well-formed concrete broadcast pushed through protocol.datagram_received reaches cb exactly once), so that
    any equivalent wiring (partial, lambda, bound method) is accepted"""
    from pyvc.interp import Ctx, PyExc
    from .common import real_enum
    proto = t.state.get("protocol")
    if not isinstance(proto, Obj):
        return False
    dt = list(real_enum("aioswitcher.device", "DeviceType"))[0]
    m = bytearray(165)
    m[0:2] = b"\xfe\xf0"
    m[74:76] = bytes.fromhex(dt.hex_rep)
    probe = Ctx()
    try:
        ip.call_function(proto.cls.find_method("datagram_received"), [proto, bytes(m), ("192.0.2.1", 20002)], {}, probe)
    except PyExc:
        return False
    called = [e[1] for e in probe.ghost.events if e[0] == "callback_object"]
    return len(probe.ghost.callback_calls) == 1 and called == [cb]


def units(tier):
    u = {}
    for n in range(0, 5):
        def methods(ip, ctx, n=n):
            obs = []
            b, cb = new_bridge(ip, ctx, n)
            obs.append(Obligation(f"{PROP}/ports{n}/__init__/stopped_and_nothing_open", ctx,
                                  b.attrs.get("_is_running") is False and not getattr(ctx, "sockets", [])))
            # pre-state: each port never bound (0) / bound+open (1) / bound+closed (2); running as RI dictates
            k = ctx.fork(3 ** n)
            pre = [(k // 3 ** i) % 3 for i in range(n)]
            ctx.sockets = []
            ctx.call_no = 0
            for p, st in zip(PORTS[:n], pre):
                if st:
                    t = EnvObj("transport", port=p, closed=(st == 2), protocol=None, created_by_call=0)
                    ctx.sockets.append(t)
                    b.attrs["_transports"].d[p] = t
            b.attrs["_is_running"] = n > 0 and all(s == 1 for s in pre) if n > 0 else bool(ctx.fork(2))
            meth = ["start", "stop", "__aenter__", "__aexit__none", "__aexit__exc"][ctx.fork(5)]
            tag = "".join(str(s) for s in pre) or "none"
            base = f"{PROP}/ports{n}/from_{tag}/{meth}"
            ctx.call_no = 1
            if meth in ("start", "__aenter__"):
                fail = ctx.fork(n + 1)          # 0 = the environment lets every bind succeed; i>0 = OSError at the i-th bind
                ctx.fail_at_bind = fail - 1 if fail else None
                ctx.ghost.events.clear()
                ob = outcome_of(lambda: ip.call_function(b.cls.find_method(meth), [b], {}, ctx))
                open_t, rec = view(ctx, b, n)
                mine = [t for t in open_t if t.state["created_by_call"] == 1]
                if ob[0] == "ret":
                    obs.append(Obligation(base + "/ok/running", ctx, b.attrs.get("_is_running") is True))
                    obs.append(Obligation(base + "/ok/every_port_bound_open_and_recorded", ctx,
                                          all(isinstance(rec.get(p), EnvObj) and not rec[p].state["closed"] for p in PORTS[:n])))
                    obs.append(Obligation(base + "/ok/protocols_wired_to_the_parser_and_callback", ctx,
                                          all(wired(ip, rec[p], cb) for p in PORTS[:n] if isinstance(rec.get(p), EnvObj) and rec[p].state["created_by_call"] == 1)))
                    obs.append(Obligation(base + "/ok/binds_0.0.0.0_without_port_sharing", ctx, True))
                    if meth == "__aenter__":
                        obs.append(Obligation(base + "/ok/returns_self", ctx, ob[1] is b))
                else:
                    obs.append(Obligation(base + "/failed/raises_OSError", ctx, ob[1].cls == "OSError", note=str(ob[1])))
                    obs.append(Obligation(base + "/failed/nothing_bound_by_this_call_is_left_listening", ctx, not mine,
                                          note=f"ports still bound: {[t.state['port'] for t in mine]}"))
                    obs.append(Obligation(base + "/failed/not_running_unless_still_fully_bound", ctx,
                                          (b.attrs.get("_is_running") is True) <= all(isinstance(rec.get(p), EnvObj) and not rec[p].state["closed"] for p in PORTS[:n])))
                obs.append(Obligation(base + "/RI_nothing_unreachable_listens", ctx, all(rec.get(t.state["port"]) is t for t in open_t)))
                obs.append(Obligation(base + "/RI_running_iff_all_ports_open", ctx, n == 0 or
                                      (b.attrs.get("_is_running") is True) == all(isinstance(rec.get(p), EnvObj) and not rec[p].state["closed"] for p in PORTS[:n])))
            else:
                if meth == "stop":
                    ob = outcome_of(lambda: ip.call_function(b.cls.find_method("stop"), [b], {}, ctx))
                else:
                    args = [None, None, None] if meth.endswith("none") else [object(), ExcVal("ValueError", ("body",)), None]
                    ob = outcome_of(lambda: ip.call_function(b.cls.find_method("__aexit__"), [b] + args, {}, ctx))
                open_t, rec = view(ctx, b, n)
                obs.append(Obligation(base + "/returns_None", ctx, ob[0] == "ret" and ob[1] is None, note=str(ob[1]) if ob[0] == "exc" else ""))
                obs.append(Obligation(base + "/nothing_left_listening", ctx, not open_t, note=f"{[t.state['port'] for t in open_t]}"))
                obs.append(Obligation(base + "/not_running", ctx, ip.getattr(b, "is_running", ctx) is False))
            return obs
        u[f"methods_ports{n}"] = Unit(f"methods_ports{n}", PROP, methods, functions=[B + "SwitcherBridge." + m for m in
                                      ("__init__", "start", "stop", "__aenter__", "__aexit__", "is_running")], max_paths=200000)

    ALPHA = ["start_ok", "start_fail0", "start_fail1", "stop", "enter", "leave", "leave_exc"]
    N = 4 if tier == "quick" else 5
    for first in range(len(ALPHA)):
        def histories(ip, ctx, first=first):
            n = 2
            length = 1 + ctx.fork(N)
            seq = [ALPHA[first]] + [ALPHA[ctx.fork(len(ALPHA))] for _ in range(length - 1)]
            b, cb = new_bridge(ip, ctx, n)
            ctx.sockets = []
            obs, hist = [], []
            listening = False          # reference: the bridge listens on all ports
            for step, a in enumerate(seq):
                hist.append(a)
                base = f"{PROP}/history/" + ">".join(hist)
                ctx.call_no = step + 1
                ctx.ghost.events.clear()
                if a.startswith("start") or a == "enter":
                    ctx.fail_at_bind = {"start_fail0": 0, "start_fail1": 1}.get(a)
                    ob = outcome_of(lambda: ip.call_function(b.cls.find_method("__aenter__" if a == "enter" else "start"), [b], {}, ctx))
                    if listening:
                        # the ports are held by this very bridge: E1 makes the bind fail; the error is raised and nothing is left listening
                        obs.append(Obligation(base + "/start_on_running_bridge_raises", ctx, ob[0] == "exc" and ob[1].cls == "OSError"))
                        listening = False
                    elif a in ("start_ok", "enter"):
                        obs.append(Obligation(base + "/starts", ctx, ob[0] == "ret", note=str(ob[1]) if ob[0] == "exc" else ""))
                        listening = True
                    else:
                        obs.append(Obligation(base + "/failing_start_raises", ctx, ob[0] == "exc" and ob[1].cls == "OSError"))
                        listening = False
                else:
                    if a == "stop":
                        ob = outcome_of(lambda: ip.call_function(b.cls.find_method("stop"), [b], {}, ctx))
                    else:
                        args = [None, None, None] if a == "leave" else [object(), ExcVal("ValueError", ("body",)), None]
                        ob = outcome_of(lambda: ip.call_function(b.cls.find_method("__aexit__"), [b] + args, {}, ctx))
                    obs.append(Obligation(base + "/stop_returns", ctx, ob[0] == "ret"))
                    listening = False
                open_t, rec = view(ctx, b, n)
                obs.append(Obligation(base + "/is_running", ctx, ip.getattr(b, "is_running", ctx) is listening))
                obs.append(Obligation(base + "/open_ports", ctx, sorted(t.state["port"] for t in open_t) == (sorted(PORTS[:n]) if listening else []),
                                      note=str(sorted(t.state["port"] for t in open_t))))
            return obs
        u[f"histories_{first}"] = Unit(f"histories_{first}", PROP, histories, max_paths=200000)

    def canary(ip, ctx):
        b, cb = new_bridge(ip, ctx, 2)
        ctx.sockets = []
        ctx.fail_at_bind = None
        ip.call_function(b.cls.find_method("start"), [b], {}, ctx)
        return [Obligation(PROP + "/_canary/start_does_not_run", ctx, b.attrs.get("_is_running") is False)]
    u["_canary"] = Unit("_canary", PROP, canary)
    return u


def replay_case(o):
    if "_canary" in o["name"]:
        return {"prop": PROP, "kind": "canary", "inputs": {}}
    if "/history/" in o["name"]:
        return {"prop": PROP, "kind": "history", "inputs": {"seq": o["name"].split("/history/")[1].split("/")[0].split(">")}}
    if "/failed/" in o["name"]:
        return {"prop": PROP, "kind": "history", "inputs": {"seq": ["start_fail1"]}}
    return None


def search_cases(o, seed):
    return [{"prop": PROP, "kind": "loopback", "inputs": {"seed": seed, "n": 25}}]


def native_cases(tier, seed):
    return [{"prop": PROP, "kind": "loopback", "inputs": {"seed": seed, "n": 25 if tier == "quick" else 400}}]
