"""operation table of both APIs: how to build symbolic arguments, the accepted domain of the statement of C02 and the
reference frames of contracts/spec.py each operation must write"""
import itertools
import z3

from pyvc.sym import Seq, Elems, PySet, PyList, simp, zi
from pyvc.engine import Obligation, outcome_of, concretise
from pyvc.models import SymTimedelta
from pyvc.timemodels import TimeStr
from pyvc.interp import Unsupported
from contracts.registry import TOOLS
from .common import func, cls, P, sym_int, sym_enum, real_enum, deep_equals
from .api_common import make_api, reply, the_clock, api_interp, API


def Days():
    return P().real["aioswitcher.schedule"].Days


def sp(ip, name, args, ctx):
    return ip.call_function(func("spec." + name), list(args), {}, ctx)


QUERIES = ("get_state", "get_shutter_state", "get_breeze_state", "get_schedules")


class Op:
    """kind: 1 or 2 (API class); nreplies: replies consumed on the normal path"""
    def __init__(self, name, kind, method, mkargs, accepted, frames, variants=1, rejects=True):
        self.name, self.kind, self.method = name, kind, method
        self.mkargs = mkargs          # (ip, ctx, variant) -> (args list, info dict)
        self.accepted = accepted      # (ip, ctx, info) -> Bool/bool: the statement's accepted domain
        self.frames = frames          # (ip, ctx, session, ts, idb, keyb, info) -> expected command frames (after the login)
        self.variants = variants
        self.rejects = rejects        # does the statement list a rejection domain for this operation?

    def qual(self):
        return API + ("SwitcherType1Api." if self.kind == 1 else "SwitcherType2Api.") + self.method


def _command_enum():
    from pyvc.engine import make_interp
    ip = make_interp()
    return ip.real_enum(P().modules["aioswitcher.api"].classes["Command"])


def build_ops():
    ops = {}
    Command = _command_enum()

    # ---- control_device(command, minutes)
    def mk_control(ip, ctx, v):
        cmd = list(Command)[v]
        minutes = sym_int(ctx, "minutes")
        ctx.inputs["command"] = cmd
        return [cmd, minutes], {"on": cmd.name == "ON", "minutes": minutes}
    ops["control_device"] = Op(
        "control_device", 1, "control_device", mk_control,
        lambda ip, ctx, i: simp(60 * i["minutes"] < 2 ** 32),
        lambda ip, ctx, s, ts, idb, keyb, i: [sp(ip, "control_frame", [s, ts, idb, i["on"], i["minutes"]], ctx)], variants=2)

    # ---- set_auto_shutdown(timedelta)
    def mk_auto(ip, ctx, v):
        secs = sym_int(ctx, "seconds", -10 ** 7, 10 ** 7)
        td = SymTimedelta(secs)
        ctx.inputs["full_time"] = td
        return [td], {"secs": secs}
    ops["set_auto_shutdown"] = Op(
        "set_auto_shutdown", 1, "set_auto_shutdown", mk_auto,
        lambda ip, ctx, i: simp(z3.And(i["secs"] >= 3600, i["secs"] < 86400)),
        lambda ip, ctx, s, ts, idb, keyb, i: [sp(ip, "auto_shutdown_frame", [s, ts, idb, i["secs"]], ctx)])

    # ---- set_device_name(name): one variant per UTF-8 byte length 0..40, character count symbolic
    def mk_name(ip, ctx, L):
        from pyvc.sym import Gen, array_gen, byte_fact, char_fact
        from pyvc import seqops
        n = z3.Int("name$len")
        ctx.fact(z3.And(n >= 0, n <= L, 4 * n >= L))
        name_g = Gen(n, lambda i: z3.Select(z3.Array("name", z3.IntSort(), z3.IntSort()), i), ("arr", "name"), 0, (), None, char_fact)
        raw = array_gen("name$utf8", L, (), byte_fact)
        raw.origin = ("utf8", name_g)
        key = (tuple(name_g.key), str(name_g.off), str(name_g.length))
        seqops._UTF8_CACHE[key] = (z3.IntVal(L), raw)
        name = Seq('str', [name_g])
        ctx.inputs["name"] = NameInput(name_g, raw, L)
        return [name], {"name": name, "L": L, "n": n}
    ops["set_device_name"] = Op(
        "set_device_name", 1, "set_device_name", mk_name,
        lambda ip, ctx, i: simp(z3.And(i["n"] >= 2, z3.BoolVal(i["L"] <= 32))),
        lambda ip, ctx, s, ts, idb, keyb, i: [sp(ip, "name_frame", [s, ts, idb, i["name"]], ctx)], variants=41)

    ops["get_schedules"] = Op(
        "get_schedules", 1, "get_schedules", lambda ip, ctx, v: ([], {}), lambda ip, ctx, i: True,
        lambda ip, ctx, s, ts, idb, keyb, i: [sp(ip, "get_schedules_frame", [s, ts, idb], ctx)], rejects=False)

    # ---- delete_schedule(schedule_id): a one-character slot id
    def mk_delete(ip, ctx, v):
        slot = sym_int(ctx, "slot", 0, 9)
        sid = Seq('str', [Elems([simp(slot + 48)])])
        ctx.inputs["schedule_id"] = sid
        return [sid], {"slot": slot}
    ops["delete_schedule"] = Op(
        "delete_schedule", 1, "delete_schedule", mk_delete, lambda ip, ctx, i: True,
        lambda ip, ctx, s, ts, idb, keyb, i: [sp(ip, "delete_schedule_frame", [s, ts, idb, i["slot"]], ctx)], rejects=False)

    # ---- create_schedule(start, end, days): variants = 128 day sets + sequences with symbolic members
    members = list(Days())
    sets = [c for size in range(8) for c in itertools.combinations(members, size)]

    def mk_create(ip, ctx, v):
        start = TimeStr("start", ctx)
        end = TimeStr("end", ctx)
        ctx.inputs["start"] = start
        ctx.inputs["end"] = end
        if v < len(sets):
            days = PySet(sets[v])
            distinct = True
            nonempty = len(sets[v]) > 0
        else:
            n = v - len(sets) + 1          # lists of 1..3 symbolic members (may repeat)
            xs = [sym_enum(ctx, f"day{i}", Days()) for i in range(n)]
            days = PyList(xs)
            distinct = ip.truth(sp(ip, "pairwise_distinct", [days], ctx), ctx)
            nonempty = True
        ctx.inputs["days"] = days
        return [start, end, days], {"start": start, "end": end, "days": days, "distinct": distinct, "nonempty": nonempty}

    def create_frames(ip, ctx, s, ts, idb, keyb, i):
        if i["nonempty"]:
            total = 0
            for d in ip.iterate(i["days"], ctx):
                total = ip.add(total, sp(ip, "day_bit", [d], ctx), ctx)
        else:
            total = 0
        se = sp(ip, "today_epoch", [i["start"].hv, i["start"].mv], ctx)
        ee = sp(ip, "today_epoch", [i["end"].hv, i["end"].mv], ctx)
        return [sp(ip, "create_schedule_frame", [s, ts, idb, total, se, ee], ctx)]
    ops["create_schedule"] = Op(
        "create_schedule", 1, "create_schedule", mk_create,
        lambda ip, ctx, i: ip.conj([i["start"].valid(), i["end"].valid(), i["distinct"]]),
        create_frames, variants=len(sets) + 3)

    ops["get_state"] = Op(
        "get_state", 1, "get_state", lambda ip, ctx, v: ([], {}), lambda ip, ctx, i: True,
        lambda ip, ctx, s, ts, idb, keyb, i: [sp(ip, "get_state1_frame", [s, ts, idb], ctx)], rejects=False)

    # ---- type 2
    ops["stop"] = Op(
        "stop", 2, "stop", lambda ip, ctx, v: ([], {}), lambda ip, ctx, i: True,
        lambda ip, ctx, s, ts, idb, keyb, i: [sp(ip, "stop_frame", [s, ts, idb], ctx)], rejects=False)

    # stop() is implemented on the common base class: it can also be called on a type-1 client (login of that client's kind, same frame)
    ops["stop_on_type1"] = Op(
        "stop_on_type1", 1, "stop", lambda ip, ctx, v: ([], {}), lambda ip, ctx, i: True,
        lambda ip, ctx, s, ts, idb, keyb, i: [sp(ip, "stop_frame", [s, ts, idb], ctx)], rejects=False)
    ops["stop_on_type1"].login_kind = 2

    def mk_pos(ip, ctx, v):
        pos = sym_int(ctx, "position", -99999999, 99999999)
        return [pos], {"position": pos}
    ops["set_position"] = Op(
        "set_position", 2, "set_position", mk_pos,
        lambda ip, ctx, i: simp(z3.And(i["position"] >= 0, i["position"] <= 100)),
        lambda ip, ctx, s, ts, idb, keyb, i: [sp(ip, "set_position_frame", [s, ts, idb, i["position"]], ctx)], rejects=False)
    ops["get_shutter_state"] = Op(
        "get_shutter_state", 2, "get_shutter_state", lambda ip, ctx, v: ([], {}), lambda ip, ctx, i: True,
        lambda ip, ctx, s, ts, idb, keyb, i: [sp(ip, "get_state2_frame", [s, ts, idb], ctx)], rejects=False)
    ops["get_breeze_state"] = Op(
        "get_breeze_state", 2, "get_breeze_state", lambda ip, ctx, v: ([], {}), lambda ip, ctx, i: True,
        lambda ip, ctx, s, ts, idb, keyb, i: [sp(ip, "get_state2_frame", [s, ts, idb], ctx)], rejects=False)
    return ops


class NameInput:
    """concretiser for a device name given by its UTF-8 bytes (model bytes may be ill-formed: repaired to valid UTF-8
    of the same byte length where possible, else reported as-is)"""
    def __init__(self, name_g, raw, L):
        self.name_g, self.raw, self.L = name_g, raw, L

    def concretise(self, m):
        from pyvc.engine import model_value
        n = model_value(m, zi(self.name_g.length))
        # a name with n characters and L bytes: distribute widths (1..4) and use fixed representative characters
        widths = [1] * n
        extra = self.L - n
        i = 0
        while extra > 0 and n > 0:
            add = min(3, extra)
            widths[i] += add
            extra -= add
            i += 1
        rep = {1: "a", 2: "é", 3: "ד", 4: "\U0001F600"}
        return "".join(rep[w] for w in widths)


OPS = None


def ops():
    global OPS
    if OPS is None:
        OPS = build_ops()
    return OPS


def login_frame(ip, ctx, op, ts, idb, keyb):
    # the login packet follows the OPERATION's device family (stop() logs in the Runner way whatever client it is called on)
    if getattr(op, "login_kind", op.kind) == 1:
        return sp(ip, "login1_frame", [ts, keyb], ctx)
    return sp(ip, "login2_frame", [ts, idb], ctx)


def run_op(ip, ctx, op, variant, r1, r2, contracts=True):
    """executes the real operation on a fresh API instance with scripted replies; returns a dict of everything observed"""
    R1 = reply(ctx, "R1", r1)
    R2 = reply(ctx, "R2", r2)
    api, idb, keyb = make_api(ip, ctx, op.kind, [R1, R2])
    args, info = op.mkargs(ip, ctx, variant)
    f = func(op.qual())
    ob = outcome_of(lambda: ip.call_function(f, [api] + list(args), {}, ctx))
    return {"api": api, "idb": idb, "keyb": keyb, "R1": R1, "R2": R2, "args": args, "info": info, "outcome": ob,
            "writes": list(ctx.ghost.writes), "reads": ctx.ghost.reads, "now": the_clock(ctx)}


def interp_with_contracts():
    return api_interp(contracts=dict(TOOLS))


def op_witness(prop, op, variant):
    def wit(ctx, model):
        run = getattr(ctx, "_run", None)
        if run is None:
            return None
        if any(e[0] in ("timeout", "open_connection") for e in ctx.ghost.events):
            return None          # an environment choice the native fake reader does not replay (a reply later than a timeout)
        now = run["now"]
        inputs = {k: concretise(v, model) for k, v in ctx.inputs.items()}
        inputs["now"] = concretise(now, model) if now is not None else None
        clk = getattr(ctx, "_clock", None)
        exc = run["outcome"][1] if run["outcome"][0] == "exc" else None
        exp = {"k": run["outcome"][0], "cls": ({"any_of": list(exc.alts)} if getattr(exc, "alts", None) else exc.cls) if exc else None,
               "nwrites": len(run["writes"]), "reads": run["reads"],
               "lens": [concretise(ip_len(w), model) for w in run["writes"]]}
        return {"case": {"prop": prop, "kind": "op", "op": op.method, "api": op.kind, "inputs": inputs},
                "expect": {"k": "ret", "v": exp}}
    return wit


def ip_len(w):
    return w.length() if isinstance(w, Seq) else len(w)
