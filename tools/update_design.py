#!/usr/bin/env python3
"""rewrites the generated parts of DESIGN.md (the seeded-change table of 9.5) from seeded/*/meta.json"""
import os
import subprocess
import sys

V = os.path.dirname(os.path.dirname(os.path.abspath(__file__)))
p = os.path.join(V, "DESIGN.md")
s = open(p).read()
table = subprocess.run([sys.executable, os.path.join(V, "tools", "seeded_table.py")], capture_output=True, text=True, check=True).stdout
a, b = "<!-- seeded-table-begin -->\n", "<!-- seeded-table-end -->\n"
i, j = s.index(a) + len(a), s.index(b)
open(p, "w").write(s[:i] + table + s[j:])
print("table rows:", table.count("\n") - 2)
