#!/usr/bin/env python3
"""maintenance tool for /verif/seeded/: verify a seeded change and run the checks against it, all on a scratch copy
of /repo (nothing under /repo is touched).

  tools/seeded.py import <src dir> <id>          copy patch.diff / demo.py / notes.md from an agent's output into seeded/<id>/
  tools/seeded.py verify <id> [--props C01,C02]   baseline tests + demo with/without the patch + the property's check(s)
  tools/seeded.py all [id prefix ...]             verify every seeded/<id> (with one of the prefixes)
"""
import json
import os
import re
import shutil
import subprocess
import sys
import tempfile
import time

V = os.path.dirname(os.path.dirname(os.path.abspath(__file__)))
PY = "/venv/bin/python"


def sh(cmd, cwd=None, env=None, timeout=3600):
    r = subprocess.run(cmd, cwd=cwd, env=env, capture_output=True, text=True, timeout=timeout)
    return r.returncode, r.stdout + r.stderr


def scratch():
    d = tempfile.mkdtemp(prefix="pyvc_seed_")
    for sub in ("src", "tests", "pyproject.toml"):
        s = os.path.join("/repo", sub)
        if os.path.isdir(s):
            shutil.copytree(s, os.path.join(d, sub))
        else:
            shutil.copy(s, os.path.join(d, sub))
    # /repo's working tree mixes CRLF (checked out by .gitattributes) and LF (files touched by the fix: commits): normalise
    # the scratch copy to LF so that `git apply` works outside a repository; line endings do not change behaviour
    for root, _, files in os.walk(os.path.join(d, "src")):
        for f in files:
            if f.endswith(".py"):
                p = os.path.join(root, f)
                b = open(p, "rb").read()
                if b"\r\n" in b:
                    open(p, "wb").write(b.replace(b"\r\n", b"\n"))
    return d


def run_tests(d):
    env = dict(os.environ, PYTHONPATH=os.path.join(d, "src"))
    rc, out = sh([PY, "-m", "pytest", "-q", "-p", "no:cacheprovider", "--timeout=900", "-x", "--co", "-q"], cwd=d, env=env)
    rc, out = sh([PY, "-m", "pytest", "-q", "-p", "no:cacheprovider", "--timeout=900"], cwd=d, env=env)
    m = re.search(r"(\d+) passed", out)
    f = re.search(r"(\d+) failed", out)
    return int(m.group(1)) if m else 0, int(f.group(1)) if f else 0, out[-400:]


def run_demo(d, demo):
    env = dict(os.environ, PYTHONPATH=os.path.join(d, "src"))
    txt = open(demo).read()
    is_pytest = "def test_" in txt and "__main__" not in txt
    cmd = [PY, "-m", "pytest", "-q", "-p", "no:cacheprovider", demo] if is_pytest else [PY, demo]
    rc, out = sh(cmd, cwd=d, env=env, timeout=600)
    return rc, out[-600:]


def verify(sid, props=None):
    sd = os.path.join(V, "seeded", sid)
    meta_p = os.path.join(sd, "meta.json")
    meta = json.load(open(meta_p)) if os.path.exists(meta_p) else {}
    prop = meta.get("property") or sid.split("_")[0]
    props = props or meta.get("checks") or [prop]
    d = scratch()
    try:
        demo = os.path.join(sd, "demo.py")
        rc0, out0 = run_demo(d, demo)
        rc, out = sh(["git", "apply", "--ignore-whitespace", "--unsafe-paths", "--directory", d, os.path.join(sd, "patch.diff")], cwd=d)
        if rc != 0:
            rc, out = sh(["patch", "-p1", "-i", os.path.join(sd, "patch.diff")], cwd=d)
        applied = rc == 0
        passed, failed, tail = run_tests(d) if applied else (0, 0, out)
        rc1, out1 = run_demo(d, demo) if applied else (None, "")
        res = {"property": prop, "patch_applies": applied, "baseline_passed": passed, "baseline_failed": failed,
               "demo_rc_unchanged": rc0, "demo_rc_patched": rc1, "valid": bool(applied and passed >= 172 and rc0 == 0 and rc1 not in (0, None))}
        checks = {}
        if res["valid"]:
            for p in props:
                env = dict(os.environ, PYVC_SRC=os.path.join(d, "src"), PYVC_REPO=d, PYVC_NO_EVIDENCE="1", VERIF_SEED="1")
                t0 = time.time()
                rc, out = sh([os.path.join(V, "vcheck"), p, "--tier", "quick"], env=env, timeout=3000)
                viol = [l for l in out.splitlines() if l.startswith("VIOLATION")]
                head = out.splitlines()[0] if out else ""
                checks[p] = {"exit": rc, "violations": len(viol), "first": [v[:200] for v in viol[:3]], "summary": head[:300],
                             "seconds": round(time.time() - t0, 1),
                             "caught_by": sorted({("proof obligation" if "/native_" not in v else "bounded native check") for v in viol})}
        res["checks"] = checks
        res["detected"] = any(c["exit"] == 1 and c["violations"] for c in checks.values())
        meta.update({"property": prop, "verification": res, "verified_at": time.strftime("%Y-%m-%dT%H:%M:%SZ", time.gmtime())})
        meta.setdefault("ran", "tools/seeded.py verify " + sid + ": scratch copy of /repo; baseline suite; demo.py with and without patch.diff; "
                        "./vcheck <property> --tier quick with PYVC_SRC pointing at the patched copy")
        json.dump(meta, open(meta_p, "w"), indent=1)
        return res
    finally:
        shutil.rmtree(d, ignore_errors=True)
        shutil.rmtree(os.path.join(os.environ.get("TMPDIR", "/tmp"), "pyvc_replays"), ignore_errors=True)


def main():
    a = sys.argv[1:]
    if a[0] == "import":
        src, sid = a[1], a[2]
        dst = os.path.join(V, "seeded", sid)
        os.makedirs(dst, exist_ok=True)
        for f in ("patch.diff", "demo.py", "notes.md"):
            if os.path.exists(os.path.join(src, f)):
                shutil.copy(os.path.join(src, f), os.path.join(dst, f))
        notes = open(os.path.join(dst, "notes.md")).read() if os.path.exists(os.path.join(dst, "notes.md")) else ""
        meta = {"property": sid.split("_")[0], "origin": "independent sub-agent given only the property text and a scratch worktree",
                "needs_to_manifest": notes.strip()[:1500]}
        json.dump(meta, open(os.path.join(dst, "meta.json"), "w"), indent=1)
        print("imported", sid)
    elif a[0] == "verify":
        props = a[a.index("--props") + 1].split(",") if "--props" in a else None
        print(json.dumps(verify(a[1], props), indent=1))
    elif a[0] == "all":
        for sid in sorted(os.listdir(os.path.join(V, "seeded"))):
            if a[1:] and not any(sid.startswith(x) for x in a[1:]):
                continue
            if os.path.isdir(os.path.join(V, "seeded", sid)):
                r = verify(sid)
                print(sid, "valid" if r["valid"] else "INVALID", "detected" if r["detected"] else "MISSED",
                      {p: (c["exit"], c["violations"]) for p, c in r["checks"].items()}, flush=True)


if __name__ == "__main__":
    main()
