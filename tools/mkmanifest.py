#!/usr/bin/env python3
"""regenerates MANIFEST.json from the property modules that exist (maintenance tool, not run by the checks)"""
import json, os, sys, importlib
V = os.path.dirname(os.path.dirname(os.path.abspath(__file__)))
sys.path.insert(0, V)
props = [json.loads(l) for l in open(os.path.join(V, "properties.jsonl"))]
TEXT = json.load(open(os.path.join(V, "tools", "manifest_text.json")))
checks, na = [], []
for p in props:
    pid = p["id"]
    if os.path.exists(os.path.join(V, "props", pid.lower() + ".py")) and pid in TEXT:
        t = TEXT[pid]
        checks.append({
            "property_id": pid,
            "quick_cmd": f"./vcheck {pid} --tier quick",
            "thorough_cmd": f"./vcheck {pid} --tier thorough",
            "evidence_file": f"evidence/{pid}.json",
            "replay_cmd_template": "./vcheck replay {path}",
            "engine": "pyvc",
            "level_claimed": {"category": t.get("category", "proof"), "text": t["text"], "design_ref": f"DESIGN.md section 4/{pid}"},
            "level_note": t["note"],
            "technique": t.get("technique", "contract-based deductive verification: VCs generated from the real AST (pyvc), discharged by z3/cvc5"),
        })
    else:
        na.append({"property_id": pid, "reason": TEXT.get(pid, {}).get("na", "check not built yet (build in progress); see DESIGN.md section 4")})
m = {
 "version": 1,
 "setup_cmd": "python3-vt -c 'import z3, sys; sys.path.insert(0, \".\"); import pyvc.check' && /usr/bin/cvc5 --version >/dev/null && PYTHONPATH=/repo/src /venv/bin/python -c 'import aioswitcher'",
 "hooks": {"guard": "TOMERFI_AIOSWITCHER_VERIF", "enable": "no hooks: contracts, ghost state and replays are sidecar files under /verif; /repo/src is parsed as it is on every run",
           "baseline_off_cmd": "cd /repo && /venv/bin/python -m pytest -ra -q -p no:cacheprovider --timeout=900 --continue-on-collection-errors",
           "source_commits": [], "add_only": True},
 "engines": [{"name": "pyvc", "path": "pyvc/", "serves_properties": [c["property_id"] for c in checks],
              "kind_free_text": "path-wise symbolic executor over the ast of /repo/src/aioswitcher (re-read every run), sidecar contracts in contracts/spec.py executed by the same executor and by CPython, obligations discharged by z3 (cvc5 for unknowns; both in thorough), counterexamples replayed on the real package under /venv/bin/python"}],
 "checks": checks,
 "not_applicable": na,
 "notes": "exit 0 held / 1 violation (VIOLATION line) / 2 undecided / 3 checker error. known_findings.json lists repaired defects (fix: commits in /repo). Every check also runs a bounded native stand-in of the same specification on the real code (never counted as proved).",
}
json.dump(m, open(os.path.join(V, "MANIFEST.json"), "w"), indent=1)
print(len(checks), "checks;", len(na), "not applicable")
