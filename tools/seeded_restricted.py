#!/usr/bin/env python3
"""one seeded change verified with a RESTRICTED quick run (one unit + all native stand-ins), for a patch on which the full quick
run does not end in reasonable time; the restriction is recorded in meta.json.
usage: tools/seeded_restricted.py <id> <unit substring> <reason>"""
import json
import os
import shutil
import sys
import time

sys.path.insert(0, os.path.dirname(os.path.abspath(__file__)))
from seeded import V, scratch, run_demo, run_tests, sh   # noqa: E402

sid, unit, reason = sys.argv[1:4]
sd = os.path.join(V, "seeded", sid)
meta_p = os.path.join(sd, "meta.json")
meta = json.load(open(meta_p))
prop = meta.get("property") or sid.split("_")[0]
d = scratch()
try:
    demo = os.path.join(sd, "demo.py")
    rc0, _ = run_demo(d, demo)
    rc, out = sh(["git", "apply", "--ignore-whitespace", "--unsafe-paths", "--directory", d, os.path.join(sd, "patch.diff")], cwd=d)
    applied = rc == 0
    passed, failed, _ = run_tests(d)
    rc1, _ = run_demo(d, demo)
    res = {"property": prop, "patch_applies": applied, "baseline_passed": passed, "baseline_failed": failed, "demo_rc_unchanged": rc0,
           "demo_rc_patched": rc1, "valid": bool(applied and passed >= 172 and rc0 == 0 and rc1 not in (0, None))}
    env = dict(os.environ, PYVC_SRC=os.path.join(d, "src"), PYVC_REPO=d, PYVC_NO_EVIDENCE="1", VERIF_SEED="1")
    t0 = time.time()
    rc, out = sh([os.path.join(V, "vcheck"), prop, "--tier", "quick", "--unit", unit], env=env, timeout=900)
    viol = [l for l in out.splitlines() if l.startswith("VIOLATION")]
    res["checks"] = {prop: {"exit": rc, "violations": len(viol), "first": [v[:200] for v in viol[:3]],
                            "summary": (out.splitlines() or [""])[0][:300], "seconds": round(time.time() - t0, 1),
                            "caught_by": sorted({("proof obligation" if "/native_" not in v else "bounded native check") for v in viol}),
                            "restricted_run": f"--unit {unit} (all native stand-ins still run): {reason}"}}
    res["detected"] = any(c["exit"] == 1 and c["violations"] for c in res["checks"].values())
    meta.update({"property": prop, "verification": res, "verified_at": time.strftime("%Y-%m-%dT%H:%M:%SZ", time.gmtime()),
                 "ran": f"tools/seeded_restricted.py {sid}: scratch copy of /repo; baseline suite; demo.py with and without patch.diff; "
                        f"./vcheck {prop} --tier quick --unit {unit} with PYVC_SRC pointing at the patched copy (restricted run)"})
    json.dump(meta, open(meta_p, "w"), indent=1)
    print(json.dumps(res, indent=1))
finally:
    shutil.rmtree(d, ignore_errors=True)
