#!/usr/bin/env python3
"""self-test helper: run a check against a scratch copy of /repo/src with one textual change applied.
usage: tools/mut.py <Cxx> <file-relative-to-src/aioswitcher> <old> <new> [--tier quick]"""
import os, shutil, subprocess, sys, tempfile
prop, rel, old, new = sys.argv[1:5]
extra = sys.argv[5:]
d = tempfile.mkdtemp(prefix="pyvc_mut_")
try:
    shutil.copytree("/repo/src", d + "/src")
    p = d + "/src/aioswitcher/" + rel
    s = open(p).read()
    assert s.count(old) >= 1, "pattern not found"
    open(p, "w").write(s.replace(old, new, 1))
    env = dict(os.environ, PYVC_SRC=d + "/src", PYVC_NO_EVIDENCE="1")
    r = subprocess.run([os.path.join(os.path.dirname(os.path.abspath(__file__)), "..", "vcheck"), prop] + extra, env=env)
    print("exit", r.returncode)
finally:
    shutil.rmtree(d)
