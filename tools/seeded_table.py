#!/usr/bin/env python3
"""prints the markdown table of DESIGN.md 9.5 from seeded/<id>/meta.json + notes.md (first heading of the author's notes)"""
import json
import os
import re

V = os.path.dirname(os.path.dirname(os.path.abspath(__file__)))
rows = []
for sid in sorted(os.listdir(os.path.join(V, "seeded"))):
    d = os.path.join(V, "seeded", sid)
    mp = os.path.join(d, "meta.json")
    if not os.path.exists(mp):
        continue
    m = json.load(open(mp))
    title = ""
    np_ = os.path.join(d, "notes.md")
    if os.path.exists(np_):
        for line in open(np_):
            line = line.strip()
            if line.startswith("#"):
                title = re.sub(r"^#+\s*", "", line)
                title = re.sub(r"^C\d\d_\d\s*[-–—:]+\s*", "", title)
                break
            if line:
                title = line[:140]
                break
    ver = m.get("verification", {})
    by = set()
    for c in ver.get("checks", {}).values():
        by |= set(c.get("caught_by", []))
    caught = "+".join(sorted({"proof obligation": "proof", "bounded native check": "bounded"}[b] for b in by)) or ("MISSED" if not ver.get("detected") else "?")
    first = "missed" if m.get("initially_missed") else ("bounded only" if m.get("initially_only_bounded") else "")
    if m.get("outside_statement_domain") and not ver.get("detected"):
        caught, first = "not claimed", "outside the statement's domain (see meta.json)"
    rows.append(f"| {sid} | {title.replace('|', '/')[:150]} | {caught} | {first} |")
print("| id | change (from the author's notes) | caught by | first version of the check |")
print("|---|---|---|---|")
print("\n".join(rows))
