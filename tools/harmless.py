#!/usr/bin/env python3
"""behaviour-preserving refactors a maintainer might make: every listed check must stay green (exit 0, no VIOLATION).
usage: tools/harmless.py [name ...]"""
import os, shutil, subprocess, sys, tempfile
V = os.path.dirname(os.path.dirname(os.path.abspath(__file__)))
CASES = {
 "rename_locals_sign": ("device/tools.py", [("binary_packet_crc", "crc_a"), ("hex_packet_crc_sliced", "first_sig"), ("hex_key_crc_sliced", "second_sig")], ["C04", "C02"]),
 "to_bytes_hex": ("device/tools.py", [('return hexlify(pack("<I", minutes * 60)).decode()', 'return (minutes * 60).to_bytes(4, "little").hex()')], ["C02"]),
 "fstring_control": ("api/__init__.py", [('''        packet = packets.GET_SCHEDULES_PACKET.format(
            login_resp.session_id,
            timestamp,
            self._device_id,
        )''', '''        session = login_resp.session_id
        packet = packets.GET_SCHEDULES_PACKET.format(session, timestamp, self._device_id)''')], ["C02", "C03"]),
 "extra_logging": ("api/__init__.py", [('        logger.debug("sending a control packet")\n        self._writer.write(unhexlify(signed_packet))\n        response = await self._reader.read(1024)\n        return SwitcherBaseResponse(response)\n\n    async def set_auto_shutdown',
                                        '        logger.debug("sending a control packet of %s bytes", len(signed_packet) // 2)\n        self._writer.write(unhexlify(signed_packet))\n        response = await self._reader.read(1024)\n        logger.debug("got %s bytes", len(response))\n        return SwitcherBaseResponse(response)\n\n    async def set_auto_shutdown')], ["C02", "C01"]),
 "dict_comprehension": ("api/messages.py", [("        states = dict(map(lambda s: (s.value, s), DeviceState))\n        return states[hex_state]", "        states = {s.value: s for s in DeviceState}\n        return states[hex_state]")], ["C08", "C09"]),
 "reorder_independent": ("bridge.py", [("        self._on_device = on_device\n        self._broadcast_ports = broadcast_ports\n        self._is_running = False", "        self._is_running = False\n        self._broadcast_ports = broadcast_ports\n        self._on_device = on_device")], ["C17", "C07"]),
 "helper_extraction": ("schedule/tools.py", [("    start_datetime = datetime.strptime(start_time, \"%H:%M\")\n    end_datetime = datetime.strptime(end_time, \"%H:%M\")", "    start_datetime, end_datetime = (datetime.strptime(t, \"%H:%M\") for t in (start_time, end_time))")], ["C14", "C10"]),
 "from_bytes_decoder": ("schedule/tools.py", [('''    hex_time = (
        hex_timestamp[6:8]
        + hex_timestamp[4:6]
        + hex_timestamp[2:4]
        + hex_timestamp[0:2]
    )
    int_time = int(hex_time, 16)''', '''    int_time = int.from_bytes(bytes.fromhex(hex_timestamp.decode()), "little")''')], ["C11", "C10"]),
 "early_return_gate": ("bridge.py", [('''    parser = DatagramParser(datagram)
    if not parser.is_switcher_originator():
        logger.debug("received datagram from an unknown source")
    else:''', '''    parser = DatagramParser(datagram)
    if not parser.is_switcher_originator():
        logger.debug("received datagram from an unknown source")
        return
    if True:''')], ["C06", "C05", "C07"]),
 "debug_field_write_only": ("api/__init__.py", [('        logger.debug("sending a control packet")\n        self._writer.write(unhexlify(signed_packet))\n        response = await self._reader.read(1024)\n        return SwitcherBaseResponse(response)\n\n    async def set_auto_shutdown',
                                                 '        logger.debug("sending a control packet")\n        self._writer.write(unhexlify(signed_packet))\n        response = await self._reader.read(1024)\n        self._last_raw_reply_for_debugging = response\n        return SwitcherBaseResponse(response)\n\n    async def set_auto_shutdown')], ["C03", "C02"]),
 "lambda_wiring": ("bridge.py", [("                partial(_parse_device_from_datagram, self._on_device)", "                lambda datagram: _parse_device_from_datagram(self._on_device, datagram)")], ["C17", "C07"]),
 "module_constant_list": ("api/__init__.py", [("SWITCHER_TCP_PORT_TYPE2 = 10000\n", "SWITCHER_TCP_PORT_TYPE2 = 10000\nKNOWN_TCP_PORTS = [9957, 10000]\n")], ["C03", "C19"]),
 "warning_reworded": ("bridge.py", [('warn("discovered an unknown switcher device")', 'warn("ignoring a broadcast of an unknown Switcher device model")')], ["C06"]),
}
names = sys.argv[1:] or list(CASES)
bad = 0
for n in names:
    rel, edits, props = CASES[n]
    d = tempfile.mkdtemp(prefix="pyvc_harmless_")
    try:
        shutil.copytree("/repo/src", d + "/src")
        shutil.copytree("/repo/tests", d + "/tests")
        p = d + "/src/aioswitcher/" + rel
        s = open(p, newline="").read().replace("\r\n", "\n")
        for old, new in edits:
            assert old in s, (n, old[:40])
            s = s.replace(old, new)
        open(p, "w").write(s)
        r = subprocess.run(["/venv/bin/python", "-m", "pytest", "-q", "-p", "no:cacheprovider", "--timeout=900"], cwd=d,
                           env=dict(os.environ, PYTHONPATH=d + "/src"), capture_output=True, text=True)
        tests = r.stdout.strip().splitlines()[-1]
        for prop in props:
            r = subprocess.run([V + "/vcheck", prop], env=dict(os.environ, PYVC_SRC=d + "/src", PYVC_REPO=d, PYVC_NO_EVIDENCE="1"),
                               capture_output=True, text=True)
            viol = [l for l in r.stdout.splitlines() if l.startswith("VIOLATION")]
            oos = [l for l in r.stdout.splitlines() if "out-of-subset" in l]
            status = "ok" if r.returncode == 0 and not viol else "ALARM"
            bad += status != "ok"
            print(f"{n:22s} {prop} exit={r.returncode} violations={len(viol)} oos={len(oos)} {status}  [{tests[:40]}]  {oos[0][:100] if oos else ''}")
    finally:
        shutil.rmtree(d)
sys.exit(1 if bad else 0)
