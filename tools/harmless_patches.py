#!/usr/bin/env python3
"""behaviour-preserving refactorings written by independent sub-agents (harmless/<id>/patch.diff + equiv.py + notes.md): every
check of a property anchored in a touched file must stay free of VIOLATION lines on the patched scratch copy.

  tools/harmless_patches.py import <src dir> <id>
  tools/harmless_patches.py verify <id> [--props C01,C02]
  tools/harmless_patches.py all [id prefix ...]

exit status of `all`: 1 if any check printed a VIOLATION (= false alarm, or a patch that is not harmless: look at it), else 0.
An undecided check (exit 2: the refactored code left the executor's subset and the bounded stand-in found nothing) is reported
as such; it is not an alarm."""
import json
import os
import shutil
import subprocess
import sys
import time

V = os.path.dirname(os.path.dirname(os.path.abspath(__file__)))
sys.path.insert(0, os.path.join(V, "tools"))
from seeded import scratch, run_tests, sh, PY   # noqa: E402

BY_FILE = {
    "bridge.py": ["C05", "C06", "C07", "C17"],
    "api/__init__.py": ["C01", "C02", "C03", "C09", "C16", "C18"],
    "api/messages.py": ["C08", "C09", "C16", "C03"],
    "api/packets.py": ["C01", "C02", "C03"],
    "api/remotes.py": ["C15", "C16"],
    "device/tools.py": ["C01", "C02", "C04", "C05", "C08", "C10", "C11"],
    "device/__init__.py": ["C19", "C05", "C08", "C06"],
    "schedule/tools.py": ["C10", "C11", "C12", "C13", "C14", "C02"],
    "schedule/parser.py": ["C10", "C13", "C14"],
    "schedule/__init__.py": ["C12", "C10", "C02"],
}


def props_of(patch):
    out = []
    for line in open(patch):
        if line.startswith("+++ "):
            for k, ps in BY_FILE.items():
                if line.strip().endswith("aioswitcher/" + k):
                    out += [p for p in ps if p not in out]
    return out


def verify(hid, props=None):
    hd = os.path.join(V, "harmless", hid)
    patch = os.path.join(hd, "patch.diff")
    props = props or props_of(patch)
    d = scratch()
    res = {"id": hid, "props": props}
    try:
        rc, out = sh(["git", "apply", "--ignore-whitespace", "--unsafe-paths", "--directory", d, patch], cwd=d)
        if rc != 0:
            rc, out = sh(["patch", "-p1", "-i", patch], cwd=d)
        res["patch_applies"] = rc == 0
        if rc != 0:
            res["error"] = out[-300:]
            return res
        passed, failed, tail = run_tests(d)
        res["baseline_passed"] = passed
        eq = os.path.join(hd, "equiv.py")
        if os.path.exists(eq):
            rc, out = sh([PY, eq], cwd=d, env=dict(os.environ, PYTHONPATH=os.path.join(d, "src")), timeout=900)
            res["equiv_rc"] = rc
        checks = {}
        for p in props:
            env = dict(os.environ, PYVC_SRC=os.path.join(d, "src"), PYVC_REPO=d, PYVC_NO_EVIDENCE="1")
            t0 = time.time()
            rc, out = sh([os.path.join(V, "vcheck"), p, "--tier", "quick"], env=env, timeout=3000)
            viol = [l for l in out.splitlines() if l.startswith("VIOLATION")]
            oos = [l.strip() for l in out.splitlines() if "out-of-subset" in l or "CHECKER-ERROR" in l]
            checks[p] = {"exit": rc, "violations": [v[:220] for v in viol[:4]], "oos": oos[:4], "summary": (out.splitlines() or [""])[0][:200],
                         "seconds": round(time.time() - t0, 1)}
        res["checks"] = checks
        res["alarms"] = [p for p, c in checks.items() if c["violations"] or c["exit"] == 1]
        res["undecided"] = [p for p, c in checks.items() if c["exit"] not in (0, 1)]
        res["verified_at"] = time.strftime("%Y-%m-%dT%H:%M:%SZ", time.gmtime())
        json.dump(res, open(os.path.join(hd, "result.json"), "w"), indent=1)
        return res
    finally:
        shutil.rmtree(d, ignore_errors=True)
        shutil.rmtree(os.path.join(os.environ.get("TMPDIR", "/tmp"), "pyvc_replays"), ignore_errors=True)


def main():
    a = sys.argv[1:]
    if a[0] == "import":
        src, hid = a[1], a[2]
        dst = os.path.join(V, "harmless", hid)
        os.makedirs(dst, exist_ok=True)
        for f in ("patch.diff", "equiv.py", "notes.md"):
            if os.path.exists(os.path.join(src, f)):
                shutil.copy(os.path.join(src, f), os.path.join(dst, f))
        print("imported", hid)
    elif a[0] == "verify":
        props = a[a.index("--props") + 1].split(",") if "--props" in a else None
        r = verify(a[1], props)
        print(json.dumps(r, indent=1))
    elif a[0] == "all":
        bad = 0
        for hid in sorted(os.listdir(os.path.join(V, "harmless"))):
            if a[1:] and not any(hid.startswith(x) for x in a[1:]):
                continue
            if os.path.isdir(os.path.join(V, "harmless", hid)):
                r = verify(hid)
                print(hid, "tests", r.get("baseline_passed"), "equiv", r.get("equiv_rc"), "ALARM " + ",".join(r["alarms"]) if r.get("alarms") else "green",
                      ("undecided " + ",".join(r["undecided"])) if r.get("undecided") else "", flush=True)
                bad += bool(r.get("alarms"))
        sys.exit(1 if bad else 0)


if __name__ == "__main__":
    main()
