import random

from aioswitcher.schedule.tools import calc_duration
from contracts import spec
from .codec import dec
from .common import compare


def one(a, b):
    return compare(lambda: calc_duration(a, b), lambda: spec.duration_spec(a, b))


def fmt(h, m, rnd=None):
    if rnd is not None and rnd.random() < 0.2:
        return f"{h}:{m}"
    return f"{h:02d}:{m:02d}"


def run_case(c):
    k, i = c["kind"], c["inputs"]
    if k == "pair":
        return one(dec(i["start"]), dec(i["end"]))
    if k == "canary":
        return {"ok": calc_duration(dec(i["start"]), dec(i["end"])) != "0:00:00"}
    if k == "sweep":
        rnd = random.Random(i["seed"])
        n = 0
        pairs = [(0, 0), (0, 1), (1, 0), (1439, 0), (0, 1439), (720, 720), (600, 599), (599, 600), (1439, 1439)]
        while len(pairs) < i["n"]:
            s = rnd.randrange(1440)
            pairs.append((s, rnd.choice([s, (s + 1) % 1440, (s - 1) % 1440, rnd.randrange(1440)])))
        for s, e in pairs:
            a, b = fmt(s // 60, s % 60, rnd), fmt(e // 60, e % 60, rnd)
            r = one(a, b)
            n += 1
            if not r["ok"]:
                r.update(evaluations=n, case={"prop": "C14", "kind": "pair", "inputs": {"start": a, "end": b}})
                return r
        return {"ok": True, "evaluations": n}
    if k == "all_pairs":
        n = 0
        for s in range(1440):
            a = fmt(s // 60, s % 60)
            for e in range(1440):
                b = fmt(e // 60, e % 60)
                n += 1
                if calc_duration(a, b) != spec.duration_spec(a, b):
                    return {"ok": False, "evaluations": n, "case": {"prop": "C14", "kind": "pair", "inputs": {"start": a, "end": b}}}
        return {"ok": True, "evaluations": n}
    if k == "listed":
        # schedules listed by a device (records with arbitrary epoch stamps, host zone with DST): duration of the reported times
        from aioswitcher.schedule.parser import get_schedules
        rnd = random.Random(i["seed"])
        for n in range(i["n"]):
            recs = bytearray()
            for j in range(rnd.randrange(1, 4)):
                q = bytearray(16)
                q[0], q[1], q[2], q[3] = j, 1, rnd.choice([0, 2, 254]), 1
                base = rnd.choice([1700000000, 1775311200, 1791036000, 1759586400])     # incl. instants next to Lord Howe DST changes
                q[4:8] = (base + rnd.randrange(-7200, 7200)).to_bytes(4, "little")
                q[8:12] = (base + rnd.randrange(-7200, 90000)).to_bytes(4, "little")
                recs += q
            for s_ in get_schedules(bytes(45) + bytes(recs) + bytes(4)):
                if s_.duration != spec.duration_spec(s_.start_time, s_.end_time):
                    return {"ok": False, "evaluations": n + 1, "detail": f"listed schedule {s_.start_time}->{s_.end_time} reports duration {s_.duration}",
                            "expected": spec.duration_spec(s_.start_time, s_.end_time)}
        return {"ok": True, "evaluations": i["n"]}
    if k == "schedules":
        # sequences of schedule objects, slot ids repeating with different times (a duration must never be remembered per slot)
        from aioswitcher.schedule.parser import SwitcherSchedule
        rnd = random.Random(i["seed"])
        for n in range(i["n"]):
            sid = str(rnd.randrange(4))
            s, e = rnd.randrange(1440), rnd.randrange(1440)
            a, b = fmt(s // 60, s % 60), fmt(e // 60, e % 60)
            obj = SwitcherSchedule(sid, False, set(), a, b)
            d = obj.duration
            if d != spec.duration_spec(a, b):
                return {"ok": False, "evaluations": n + 1, "detail": f"schedule #{n + 1} (slot {sid}) {a}->{b} reports duration {d}",
                        "expected": spec.duration_spec(a, b)}
            # a copy with one time edited (dataclasses.replace) reports the duration of ITS times
            import dataclasses
            e2 = rnd.randrange(1440)
            b2 = fmt(e2 // 60, e2 % 60)
            try:
                d2 = dataclasses.replace(obj, end_time=b2).duration
            except Exception as ex:   # noqa: BLE001
                d2 = "raised " + type(ex).__name__
            if d2 != spec.duration_spec(a, b2):
                return {"ok": False, "evaluations": n + 1, "detail": f"copy of schedule {a}->{b} with end_time={b2} reports duration {d2}",
                        "expected": spec.duration_spec(a, b2)}
        return {"ok": True, "evaluations": i["n"]}
    raise ValueError(k)
