"""native side of C03: single operations, and random SEQUENCES / INTERLEAVINGS of operations on several instances
(bounded validation of the induction step: session, clock and identity never leak between operations or instances)"""
import asyncio
import random

import aioswitcher.device.tools as dtools
from contracts import spec
from .codec import dec, canon
from . import n_api
from .n_c02 import rnd_inputs, OPS


def check_one(op, kind, i):
    r = n_api.run_operation(op, kind, i)
    R1 = dec(i["R1"])
    if len(R1) < 12 or not r["writes"]:
        return {"ok": bool(r["writes"]), "outcome": n_api.summary(r)}
    ts = n_api.ts_of(dec(i["now"]))
    idb, keyb = dec(i["dev_id"]), dec(i["dev_key"])
    login = spec.login1_frame(ts, keyb) if (kind == 1 and op != "stop") else spec.login2_frame(ts, idb)
    ok = r["writes"][0] == login
    for w in r["writes"][1:]:
        ok = ok and w[8:12] == R1[8:12] and w[24:28] == ts and w[40:43] == idb
    return {"ok": ok, "outcome": n_api.summary(r)}


class Clock:
    def __init__(self):
        self.now = 1700000000.0

    def time(self):
        return self.now


def run_case(c):
    k, i = c["kind"], c["inputs"]
    if k == "op":
        return {"ok": True, "outcome": {"k": "ret", "v": n_api.summary(n_api.run_operation(c["op"], c["api"], i))}}
    if k == "op_check":
        return check_one(c["op"], c["api"], i)
    if k == "canary":
        r = n_api.run_operation("stop", 2, i)
        return {"ok": len(r["writes"]) == 2 and r["writes"][1][8:12] == b"\x00" * 4}
    if k == "sequences":
        rnd = random.Random(i["seed"])
        n = 0
        for _ in range(i["n"]):
            # three instances, interleaved operations driven one await at a time is not needed: operations are sequential per
            # instance; interleave whole operations of different instances in random order
            insts = []
            for j in range(3):
                kind = rnd.choice([1, 2])
                insts.append({"kind": kind, "id": bytes(rnd.randrange(256) for _ in range(3)), "key": bytes([rnd.randrange(256)]),
                              "api": None})
            clock = Clock()
            saved = dtools.time
            dtools.time = clock
            try:
                for x in insts:
                    x["api"] = n_api.make(x["kind"], x["id"], x["key"], [])
                for step in range(12):
                    x = rnd.choice(insts)
                    ops = [o for o, kd in OPS if kd == x["kind"]]
                    op = rnd.choice(ops)
                    inp = rnd_inputs(rnd, op)
                    R1, R2 = dec(inp["R1"]), dec(inp["R2"])
                    # steps that carry into the higher bytes of the little-endian stamp (its hex text then sorts LOWER although time
                    # moved forward) as well as small and large ones
                    clock.now += rnd.choice([0.2, 1.0, 7.5, 3600.0, 250.0, 255.0, 65530.0, 16777000.0])
                    now = clock.now
                    a = x["api"]
                    a._reader = n_api.FakeReader([R1, R2])
                    a._writer = n_api.FakeWriter()
                    try:
                        asyncio.run(getattr(a, op)(*n_api.op_args(op, inp)))
                    except Exception:
                        pass
                    n += 1
                    ws = a._writer.log
                    ts = spec.timestamp_of(now)
                    login = spec.login1_frame(ts, x["key"]) if (x["kind"] == 1 and op != "stop") else spec.login2_frame(ts, x["id"])
                    ok = bool(ws) and ws[0] == login
                    for w in ws[1:]:
                        ok = ok and w[8:12] == R1[8:12] and w[24:28] == ts and w[40:43] == x["id"]
                    if not ok:
                        return {"ok": False, "evaluations": n, "detail": f"step {step}: operation {op} on instance {insts.index(x)} leaked or lost "
                                "session / timestamp / identity", "writes": [w.hex() for w in ws], "R1": R1.hex()}
            finally:
                dtools.time = saved
        return {"ok": True, "evaluations": n}
    raise ValueError(k)
