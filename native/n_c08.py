import os
import random

from aioswitcher.api import messages as M
from aioswitcher.device import DeviceState, ShutterDirection, ThermostatFanLevel, ThermostatMode, ThermostatSwing
from aioswitcher.device.tools import watts_to_amps
from contracts import spec
from .codec import dec, canon
from .common import real_outcome, spec_outcome, agree


def obj_canon(o):
    return {"t": "obj", "cls": type(o).__name__, "attrs": {k: canon(v) for k, v in vars(o).items()}}


def fields_agree(real, sp):
    """real: canonical object; sp: canonical dict of expected attributes"""
    if real["k"] != "ret" or sp["k"] != "ret":
        return agree(real, sp)
    attrs = real["v"]["attrs"]
    for k, v in sp["v"]["v"]:
        if k not in attrs:
            return False
        a = attrs[k]
        if isinstance(v, dict) and v.get("t") == "float":
            if not (isinstance(a, dict) and abs(a["v"] - v["v"]) < 1e-9):
                return False
        elif a != v:
            return False
    return True


def idlen_of(r):
    raw = r[84:92]
    n = 0
    while n < len(raw) and raw[n] != 0:
        n += 1
    return n


def check(kind, r):
    if kind == "state1":
        real = real_outcome(lambda: M.SwitcherStateResponse(r), obj_canon)
        if not spec.wf_state1(r):
            return {"ok": True, "outcome": real, "skipped": "not well-formed"}
        sp = spec_outcome(lambda: spec.ref_state1(r, DeviceState))
    elif kind == "shutter":
        real = real_outcome(lambda: M.SwitcherShutterStateResponse(r), obj_canon)
        if not spec.wf_shutter(r):
            return {"ok": True, "outcome": real, "skipped": "not well-formed"}
        sp = spec_outcome(lambda: spec.ref_shutter(r, ShutterDirection))
    elif kind == "thermostat":
        real = real_outcome(lambda: M.SwitcherThermostatStateResponse(r), obj_canon)
        n = idlen_of(r) if len(r) >= 92 else 0
        if not spec.wf_thermostat(r, n):
            return {"ok": True, "outcome": real, "skipped": "not well-formed"}
        sp = spec_outcome(lambda: spec.ref_thermostat(r, n, DeviceState, ThermostatMode, ThermostatFanLevel, ThermostatSwing))
    elif kind == "login":
        real = real_outcome(lambda: M.SwitcherLoginResponse(r), obj_canon)
        if len(r) < 12:
            return {"ok": True, "outcome": real, "skipped": "short"}
        ok = real["k"] == "ret" and real["v"]["attrs"]["session_id"] == spec.ref_login(r) and real["v"]["attrs"]["unparsed_response"] == canon(r)
        return {"ok": ok, "outcome": real, "expected": spec.ref_login(r)}
    else:
        raise ValueError(kind)
    return {"ok": fields_agree(real, sp), "outcome": real, "expected": sp}


def gen(kind, rnd):
    if kind == "state1":
        r = bytearray(rnd.randrange(256) for _ in range(rnd.choice([101, 102, 107, 200])))
        r[75] = rnd.randrange(2)
        for off in (89, 93, 97):
            r[off:off + 4] = rnd.choice([0, 1, 59, 60, 3599, 3600, 86399, rnd.randrange(86400)]).to_bytes(4, "little")
        if rnd.random() < 0.3:
            r[77:79] = rnd.choice([0, 1, 219, 220, 255, 256, 65535]).to_bytes(2, "little")
    elif kind == "shutter":
        r = bytearray(rnd.randrange(256) for _ in range(rnd.choice([80, 81, 100, 120])))
        r[78:80] = rnd.choice([b"\x00\x00", b"\x01\x00", b"\x00\x01"])
    elif kind == "thermostat":
        r = bytearray(rnd.randrange(256) for _ in range(rnd.choice([92, 93, 109, 150])))
        r[78] = rnd.randrange(2)
        r[79] = rnd.randrange(1, 6)
        r[81] = rnd.randrange(4) * 16 + rnd.randrange(2)
        n = rnd.randrange(9)
        r[84:92] = bytes(rnd.randrange(1, 128) for _ in range(n)) + bytes(8 - n)
    else:
        r = bytearray(rnd.randrange(256) for _ in range(rnd.choice([12, 13, 44, 100])))
    return bytes(r)


def run_case(c):
    k, i = c["kind"], c["inputs"]
    if k in ("state1", "shutter", "thermostat", "login"):
        return check(k, dec(i["r"]))
    if k == "canary":
        return {"ok": M.SwitcherStateResponse(dec(i["r"])).power_consumption == 0}
    if k == "sweep":
        rnd = random.Random(i["seed"])
        for n in range(i["n"]):
            kind = ("state1", "shutter", "thermostat", "login")[n % 4]
            r = gen(kind, rnd)
            res = check(kind, r)
            if not res["ok"]:
                res.update(evaluations=n + 1, case={"prop": "C08", "kind": kind, "inputs": {"r": canon(r)}})
                return res
        return {"ok": True, "evaluations": i["n"]}
    if k == "repeats":
        # the same reply decoded several times in one process must decode the same way every time (nothing is remembered)
        rnd = random.Random(i["seed"])
        for n in range(i["n"]):
            kind = ("state1", "shutter", "thermostat")[n % 3]
            r = gen(kind, rnd)
            for rep in range(3):
                res = check(kind, r)
                if not res["ok"]:
                    res.update(evaluations=3 * n + rep + 1, detail=f"decode #{rep + 1} of the same reply", case={"prop": "C08", "kind": kind, "inputs": {"r": canon(r)}})
                    return res
        return {"ok": True, "evaluations": 3 * i["n"]}
    if k == "shipped":
        base = os.path.join(os.environ.get("PYVC_REPO", "/repo"), "tests", "testresources", "dummy_responses")
        n = 0
        for fn, kind in (("get_state_response.txt", "state1"), ("get_shutter_state_response.txt", "shutter"),
                         ("get_breeze_state.txt", "thermostat"), ("login_response.txt", "login"), ("login2_response.txt", "login")):
            p = os.path.join(base, fn)
            if not os.path.exists(p):
                continue
            r = bytes.fromhex(open(p).read().strip())
            res = check(kind, r)
            n += 1
            if not res["ok"] or res.get("skipped"):
                res.update(ok=False, evaluations=n, detail="shipped capture " + fn + (" is not well-formed under the reference layout" if res.get("skipped") else ""),
                           case={"prop": "C08", "kind": kind, "inputs": {"r": canon(r)}})
                return res
        return {"ok": True, "evaluations": n}
    if k == "amps":
        n = 0
        for w in range(0, 65536, i["step"]):
            n += 1
            a = watts_to_amps(w)
            if not spec.amps_ok(w, a) or a != spec.amps_of(w):
                return {"ok": False, "evaluations": n, "detail": f"watts_to_amps({w}) = {a}"}
        return {"ok": True, "evaluations": n}
    raise ValueError(k)
