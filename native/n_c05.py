import glob
import os
import random
import warnings

from aioswitcher import bridge
from aioswitcher.device import (DeviceCategory, DeviceState, DeviceType, ShutterDirection, ThermostatFanLevel, ThermostatMode,
                                ThermostatSwing)
from contracts import spec
from .codec import dec, canon, exc_name
from .n_c08 import fields_agree

CLASS_OF = {"WATER_HEATER": "SwitcherWaterHeater", "POWER_PLUG": "SwitcherPowerPlug", "SHUTTER": "SwitcherShutter",
            "THERMOSTAT": "SwitcherThermostat"}
BY_CODE = {t.hex_rep: t for t in DeviceType}


def obj_canon(o):
    d = {k: canon(v) for k, v in vars(o).items() if k != "last_data_update"}
    return {"t": "obj", "cls": type(o).__name__, "attrs": d}


def parse(m):
    """runs the real builder; returns (outcome kind, exception class, devices, warnings)"""
    got = []
    with warnings.catch_warnings(record=True) as w:
        warnings.simplefilter("always")
        try:
            bridge._parse_device_from_datagram(got.append, m)
            k, cls = "ret", None
        except Exception as e:
            k, cls = "exc", exc_name(e)
    return k, cls, got, [str(x.message) for x in w]


def name_ok(m):
    raw = m[42:74].rstrip(b"\x00")
    try:
        s = raw.decode("utf-8")
    except UnicodeDecodeError:
        return False
    return not s.endswith("\x00") and b"\x00" not in raw[len(raw):]  # padding only after the text


def expected(m):
    """(class name, reference fields) or None when the datagram is not a well-formed broadcast of a known type"""
    if not spec.gate_spec(m):
        return None
    dt = BY_CODE.get(spec.model_code(m))
    if dt is None or not name_ok(m):
        return None
    cat = dt.category.name
    if cat in ("WATER_HEATER", "POWER_PLUG"):
        timed = cat == "WATER_HEATER"
        if not spec.wf_type1(m, timed):
            return None
        return CLASS_OF[cat], spec.ref_power(m, dt, DeviceState, timed)
    if cat == "SHUTTER":
        if not spec.wf_shutter_bc(m):
            return None
        return CLASS_OF[cat], spec.ref_shutter_bc(m, dt, DeviceState, ShutterDirection)
    if not spec.wf_breeze_bc(m):
        return None
    return CLASS_OF[cat], spec.ref_breeze_bc(m, dt, DeviceState, ThermostatMode, ThermostatFanLevel, ThermostatSwing)


def check(m):
    exp = expected(m)
    k, cls, got, warns = parse(m)
    out = {"k": k, "cls": cls, "n": len(got), "warnings": warns, "devices": [obj_canon(g) for g in got]}
    if exp is None:
        return {"ok": True, "skipped": "not a well-formed broadcast", "outcome": out}
    cname, fields = exp
    if k != "ret" or len(got) != 1 or warns or type(got[0]).__name__ != cname:
        return {"ok": False, "outcome": out, "expected": {"cls": cname, "fields": canon(fields)}}
    ok = fields_agree({"k": "ret", "v": obj_canon(got[0])}, {"k": "ret", "v": canon(fields)})
    return {"ok": ok, "outcome": out, "expected": {"cls": cname, "fields": canon(fields)}}


def gen(rnd, dt=None):
    dt = dt or rnd.choice(list(DeviceType))
    cat = dt.category.name
    n = {"WATER_HEATER": 165, "POWER_PLUG": 165, "SHUTTER": 159, "THERMOSTAT": 168}[cat]
    m = bytearray(rnd.randrange(256) for _ in range(n))
    m[0:2] = b"\xfe\xf0"
    m[74:76] = bytes.fromhex(dt.hex_rep)
    name = rnd.choice(["Switcher Touch", "boiler", "דוד שמש", "chauffe-eau été", "😀 plug", "", "x" * 32, "é" * 16, "a"])
    raw = name.encode()[:32]
    while True:
        try:
            raw.decode()
            break
        except UnicodeDecodeError:
            raw = raw[:-1]
    m[42:74] = raw + bytes(32 - len(raw))
    secs = lambda: rnd.choice([0, 1, 59, 3600, 86399, rnd.randrange(86400)]).to_bytes(4, "little")
    if cat in ("WATER_HEATER", "POWER_PLUG"):
        m[133] = rnd.randrange(2)
        m[147:151] = secs()
        m[155:159] = secs()
        if rnd.random() < 0.3:
            m[135:137] = rnd.choice([0, 219, 220, 255, 256, 65535]).to_bytes(2, "little")
    elif cat == "SHUTTER":
        m[136] = 0
        m[137:139] = rnd.choice([b"\x00\x00", b"\x01\x00", b"\x00\x01"])
    else:
        m[137] = rnd.randrange(2)
        m[138] = rnd.randrange(1, 6)
        m[140] = rnd.randrange(4) * 16 + rnd.randrange(2)
        m[143:151] = bytes(rnd.randrange(33, 127) for _ in range(8))
    return bytes(m)


def run_case(c):
    k, i = c["kind"], c["inputs"]
    if k == "check":
        return check(dec(i["m"]))
    if k == "parse":
        kind, cls, got, warns = parse(dec(i["m"]))
        v = {"k": kind, "n": len(got)}
        if len(got) == 1:
            v["dev"] = obj_canon(got[0])
        return {"ok": True, "outcome": {"k": "ret", "v": v}}
    if k == "canary":
        kind, cls, got, warns = parse(dec(i["m"]))
        return {"ok": len(got) == 1 and got[0].device_state == DeviceState.OFF}
    if k == "via_bridge":
        # through a real SwitcherBridge on loopback (not the parser function alone): every well-formed broadcast that arrives is
        # one device for the callback - also when the very same bytes arrive again, and on either port
        import asyncio
        import socket
        from .n_c17 import free_udp_ports
        rnd = random.Random(i["seed"])

        async def go():
            ports = free_udp_ports(2)
            got = []
            b = bridge.SwitcherBridge(got.append, ports)
            await b.start()
            s = socket.socket(socket.AF_INET, socket.SOCK_DGRAM)
            sent = []
            try:
                for j in range(i["n"]):
                    m = bytes(gen(rnd))
                    for rep in range(3):
                        s.sendto(m, ("127.0.0.1", ports[(j + rep) % 2]))
                        sent.append(m)
                        await asyncio.sleep(0.002)
                await asyncio.sleep(0.2)
            finally:
                s.close()
                await b.stop()
            if len(got) != len(sent):
                return f"{len(sent)} well-formed broadcasts sent (each three times), {len(got)} devices delivered"
            for m, dev in zip(sent, got):
                e = expected(m)
                if e is None or obj_canon(dev)["cls"] != e[0]:
                    return "a delivered device does not match the broadcast it was decoded from"
            return None
        p = asyncio.run(go())
        return {"ok": p is None, "evaluations": 3 * i["n"], "detail": p}
    if k == "renames":
        # the same device (same id) broadcasts again after its name / key / address changed: every broadcast is decoded on its own
        rnd = random.Random(i["seed"])
        for n in range(i["n"]):
            m1 = bytearray(gen(rnd))
            m2 = bytearray(gen(rnd, dt=BY_CODE[spec.model_code(bytes(m1))]))
            m2[18:21] = m1[18:21]
            for m in (bytes(m1), bytes(m2), bytes(m1)):
                r = check(m)
                if not r["ok"]:
                    r.update(evaluations=2 * n + 1, detail="a device that broadcast before (same id) is not decoded from its own datagram",
                             case={"prop": "C05", "kind": "check", "inputs": {"m": canon(m)}})
                    return r
        return {"ok": True, "evaluations": 3 * i["n"]}
    if k == "sweep":
        import logging
        lg = logging.getLogger("aioswitcher")
        old_level = lg.level
        if i.get("debug_logging"):
            lg.setLevel(logging.DEBUG)
            lg.addHandler(logging.NullHandler())
        try:
            rnd = random.Random(i["seed"])
            for n in range(i["n"]):
                m = gen(rnd)
                r = check(m)
                if not r["ok"]:
                    r.update(evaluations=n + 1, detail="with the aioswitcher logger at DEBUG" if i.get("debug_logging") else "",
                             case={"prop": "C05", "kind": "check", "inputs": {"m": canon(m)}})
                    return r
            return {"ok": True, "evaluations": i["n"]}
        finally:
            lg.setLevel(old_level)
    if k == "sweep_old":
        rnd = random.Random(i["seed"])
        for n in range(i["n"]):
            m = gen(rnd)
            r = check(m)
            if not r["ok"] or (r.get("skipped") and n < 50 and False):
                r.update(evaluations=n + 1, case={"prop": "C05", "kind": "check", "inputs": {"m": canon(m)}})
                return r
        return {"ok": True, "evaluations": i["n"]}
    if k == "shipped":
        base = os.path.join(os.environ.get("PYVC_REPO", "/repo"), "tests", "testresources")
        n = 0
        for p in sorted(glob.glob(base + "/test_device_parsing/*.txt") + glob.glob(base + "/test_udp_datagram_parsing/test_datagram*.txt")
                        + glob.glob(base + "/test_bridge/*.txt")):
            m = bytes.fromhex(open(p).read().strip())
            r = check(m)
            n += 1
            if not r["ok"] or r.get("skipped"):
                r.update(ok=False, evaluations=n, detail="shipped capture " + os.path.basename(p) + (": not well-formed under the reference layout" if r.get("skipped") else ""),
                         case={"prop": "C05", "kind": "check", "inputs": {"m": canon(m)}})
                return r
        return {"ok": True, "evaluations": n}
    raise ValueError(k)
