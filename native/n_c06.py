import random

from aioswitcher import bridge
from aioswitcher.device import DeviceType
from contracts import spec
from .codec import dec, canon
from .n_c05 import parse, BY_CODE

WARNING = "discovered an unknown switcher device"


def check(m):
    gate_real = bridge.DatagramParser(m).is_switcher_originator()
    gate = spec.gate_spec(m)
    if bool(gate_real) != bool(gate):
        return {"ok": False, "detail": "gate", "outcome": gate_real, "expected": gate}
    k, cls, got, warns = parse(m)
    eff = {"k": k, "cls": cls, "n": len(got), "warnings": warns}
    if not gate:
        return {"ok": k == "ret" and not got and not warns, "outcome": eff, "expected": "no effect"}
    if spec.model_code(m) not in BY_CODE:
        return {"ok": k == "ret" and not got and len(warns) == 1 and "unknown" in warns[0].lower(), "outcome": eff, "expected": "one warning, no device, no exception"}
    return {"ok": True, "outcome": eff, "skipped": "known model: C05"}


def run_case(c):
    k, i = c["kind"], c["inputs"]
    if k == "check":
        return check(dec(i["m"]))
    if k == "gate":
        m = dec(i["m"])
        return {"ok": True, "outcome": {"k": "ret", "v": bridge.DatagramParser(m).is_switcher_originator()}}
    if k == "effects":
        kind, cls, got, warns = parse(dec(i["m"]))
        return {"ok": True, "outcome": {"k": "ret", "v": {"k": kind, "cls": cls, "n": len(got), "warnings": warns}}}
    if k == "canary":
        return {"ok": not bridge.DatagramParser(dec(i["m"])).is_switcher_originator()}
    if k == "sweep":
        rnd = random.Random(i["seed"])
        n = 0
        for ln in range(0, i["maxlen"] + 1):
            for magic in (True, False):
                m = bytearray(rnd.randrange(256) for _ in range(ln))
                if magic and ln >= 2:
                    m[0:2] = b"\xfe\xf0"
                elif ln >= 2 and rnd.random() < 0.5:
                    m[0:2] = rnd.choice([b"\xfe\x00", b"\x00\xf0", b"\xf0\xfe"])
                r = check(bytes(m))
                n += 1
                if not r["ok"]:
                    r.update(evaluations=n, case={"prop": "C06", "kind": "check", "inputs": {"m": canon(bytes(m))}})
                    return r
        # frames whose header length field (bytes 2-3, either byte order) equals their real length, and repeats of one unknown code
        for ln in list(range(4, 400)) + [1024, 4096]:
            for order in ("little", "big"):
                m = bytearray(rnd.randrange(256) for _ in range(ln))
                m[0:2] = b"\xfe\xf0"
                m[2:4] = ln.to_bytes(2, order)
                r = check(bytes(m))
                n += 1
                if not r["ok"]:
                    r.update(evaluations=n, case={"prop": "C06", "kind": "check", "inputs": {"m": canon(bytes(m))}})
                    return r
        # near misses: a well-formed frame of each family one byte too long (every value of the extra byte: line-end and NUL
        # characters included), one byte too short, and with each of its first four bytes altered
        from .n_c05 import gen
        for dt in (DeviceType.MINI, DeviceType.BREEZE, DeviceType.RUNNER):
            good = bytes(gen(rnd, dt))
            near = [good + bytes([b]) for b in range(256)] + [good[:-1], good[1:], b"\n" + good, good + b"\r\n"]
            near += [bytes([b]) + good[1:] for b in (0, 0xff, 0xfd)] + [good[:1] + bytes([b]) + good[2:] for b in (0, 0xff, 0xf1)]
            for m in near:
                r = check(m)
                n += 1
                if not r["ok"]:
                    r.update(evaluations=n, case={"prop": "C06", "kind": "check", "inputs": {"m": canon(m)}})
                    return r
        for rep in range(3):
            m = bytearray(165)
            m[0:2] = b"\xfe\xf0"
            m[74:76] = b"\xab\xcd"
            r = check(bytes(m))
            n += 1
            if not r["ok"]:
                r.update(evaluations=n, detail=f"unknown model code seen for the {rep + 1}. time", case={"prop": "C06", "kind": "check", "inputs": {"m": canon(bytes(m))}})
                return r
        codes = range(65536) if i["codes"] >= 65536 else [rnd.randrange(65536) for _ in range(i["codes"])] + [0, 0xFFFF, 0x0C03, 0x0E00]
        for code in codes:
            ln = (165, 168, 159)[code % 3]
            m = bytearray(ln)
            m[0:2] = b"\xfe\xf0"
            m[74:76] = code.to_bytes(2, "big")
            r = check(bytes(m))
            n += 1
            if not r["ok"]:
                r.update(evaluations=n, case={"prop": "C06", "kind": "check", "inputs": {"m": canon(bytes(m))}})
                return r
        return {"ok": True, "evaluations": n}
    raise ValueError(k)
