import random

from contracts import spec
from .codec import dec, canon
from . import n_api
from .n_c02 import rnd_inputs, OPS


def check(op, kind, i):
    r = n_api.run_operation(op, kind, i)
    R1 = dec(i["R1"])
    out = {"k": r["k"], "writes": [w.hex() for w in r["writes"]]}
    if len(R1) < 12:
        return {"ok": True, "skipped": "login reply carries no session id", "outcome": out}
    bad = [j for j, w in enumerate(r["writes"]) if not spec.frame_ok(w)]
    return {"ok": not bad and len(r["writes"]) >= 1, "outcome": out, "expected": "every write satisfies frame_ok", "bad_writes": bad}


def run_case(c):
    k, i = c["kind"], c["inputs"]
    if k == "op":
        return {"ok": True, "outcome": {"k": "ret", "v": n_api.summary(n_api.run_operation(c["op"], c["api"], i))}}
    if k == "op_check":
        return check(c["op"], c["api"], i)
    if k == "canary":
        r = n_api.run_operation("stop", 2, i)
        return {"ok": len(r["writes"]) == 2 and r["writes"][1][2] == 0}
    if k == "sweep":
        rnd = random.Random(i["seed"])
        for n in range(i["n"]):
            op, kind = OPS[n % len(OPS)]
            inp = rnd_inputs(rnd, op)
            if op == "set_position" and rnd.random() < 0.3:
                inp["position"] = rnd.choice([-1, 255, 256, 4095, 4096, 70000])
            r = check(op, kind, inp)
            if not r["ok"]:
                r.update(evaluations=n + 1, case={"prop": "C01", "kind": "op_check", "op": op, "api": kind, "inputs": inp})
                return r
        return {"ok": True, "evaluations": i["n"]}
    if k == "breeze_sweep":
        from . import n_c16
        rnd = random.Random(i["seed"])
        for n in range(i["n"]):
            ok, desc, why = n_c16.one(rnd)
            if len(bytes.fromhex(desc["R1"])) < 12:
                continue
            bad = [j for j, w in enumerate(n_c16.one.last_writes) if not spec.frame_ok(w)]
            if bad:
                return {"ok": False, "evaluations": n + 1, "detail": f"control_breeze_device: write {bad[0]} is not a well-formed frame",
                        "request": desc}
        return {"ok": True, "evaluations": i["n"]}
    raise ValueError(k)
