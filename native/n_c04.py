"""native side of C04: the real signer against contracts/spec.py, and validation of the crc_hqx assumption"""
import binascii
import random

from aioswitcher.device.tools import sign_packet_with_crc_key
from contracts import spec
from .codec import dec, outcome, canon


def spec_outcome(p):
    try:
        return {"k": "ret", "v": canon(spec.sign_spec(p))}
    except spec.Reject as r:
        return {"k": "exc", "classes": list(r.args)}


def agrees(real, sp):
    if sp["k"] == "ret":
        return real == sp
    if real["k"] != "exc":
        return False
    import builtins
    for c in sp["classes"]:
        if c == real["cls"] or (c == "ValueError" and real["cls"] in ("binascii.Error", "UnicodeDecodeError", "UnicodeEncodeError")):
            return True
    return False


def check_one(p):
    real = outcome(lambda: sign_packet_with_crc_key(p))
    sp = spec_outcome(p)
    return agrees(real, sp), real, sp


def run_case(c):
    kind = c["kind"]
    i = c["inputs"]
    if kind in ("sign", "sign_canary"):
        p = dec(i["p"])
        real = outcome(lambda: sign_packet_with_crc_key(p))
        if kind == "sign_canary":
            return {"ok": real == {"k": "ret", "v": p + "00000000"}, "outcome": real}
        ok, real, sp = check_one(p)
        return {"ok": ok, "outcome": real, "expected": sp}
    if kind == "sweep":
        rnd = random.Random(i["seed"])
        n = 0
        for k in range(i["n"]):
            ln = rnd.choice([0, 1, 2, 3, 39, 40, 100, 1000, 4096]) if k % 3 == 0 else rnd.randrange(0, 300)
            raw = bytes(rnd.randrange(256) for _ in range(ln))
            p = raw.hex()
            if k % 2:
                p = p.upper()
            if k % 7 == 0 and p:
                j = rnd.randrange(len(p))
                p = p[:j] + rnd.choice("gz _xGé") + p[j + 1:]
            if k % 11 == 0:
                p = p[:-1]
            ok, real, sp = check_one(p)
            n += 1
            if not ok:
                return {"ok": False, "evaluations": n, "outcome": real, "expected": sp,
                        "case": {"prop": "C04", "kind": "sign", "inputs": {"p": {"t": "str", "v": p}}}}
        return {"ok": True, "evaluations": n}
    if kind == "bitflips":
        # every single-bit flip of real frames (the unsigned part of each kind of frame the library sends), both hex spellings
        ts, ident, sess, key = bytes.fromhex("d2029649"), bytes.fromhex("a1b2c3"), bytes.fromhex("11223344"), b"\x07"
        frames = [spec.login1_frame(ts, key), spec.login2_frame(ts, ident), spec.get_state1_frame(sess, ts, ident),
                  spec.get_state2_frame(sess, ts, ident), spec.control_frame(sess, ts, ident, True, 30),
                  spec.auto_shutdown_frame(sess, ts, ident, 7200), spec.name_frame(sess, ts, ident, "my boiler"),
                  spec.get_schedules_frame(sess, ts, ident), spec.delete_schedule_frame(sess, ts, ident, 3),
                  spec.create_schedule_frame(sess, ts, ident, 42, 1700000000, 1700003600), spec.stop_frame(sess, ts, ident),
                  spec.set_position_frame(sess, ts, ident, 50), spec.breeze_update_frame(sess, ts, ident, 1, 4, 24, 2, 0),
                  spec.breeze_command_frame(sess, ts, ident, b"\x00\x00\x00\x00P|" + b"AB" * 150)]
        n = 0
        for f in frames:
            body = bytes(f[:-4])
            for bit in range(-1, 8 * len(body)):
                b = bytearray(body)
                if bit >= 0:
                    b[bit // 8] ^= 1 << (bit % 8)
                for p_ in ((b.hex(),) if bit % 16 else (b.hex(), b.hex().upper())):
                    ok, real, sp = check_one(p_)
                    n += 1
                    if not ok:
                        return {"ok": False, "evaluations": n, "outcome": real, "expected": sp,
                                "case": {"prop": "C04", "kind": "sign", "inputs": {"p": {"t": "str", "v": p_}}}}
        return {"ok": True, "evaluations": n}
    if kind == "threads":
        # a pure function gives the same answer from any thread at any time: several threads sign different texts concurrently with a
        # very short switch interval (bounded and probabilistic: it can only find shared scratch state, never prove its absence)
        import sys
        import threading
        texts = [bytes([t]) .hex() * (3 + t) for t in range(8)]
        want = [spec.sign_spec(p_) for p_ in texts]
        bad = []
        old = sys.getswitchinterval()
        sys.setswitchinterval(1e-6)

        def work(t):
            for _ in range(i.get("rounds", 4000)):
                if sign_packet_with_crc_key(texts[t]) != want[t]:
                    bad.append(t)
                    return
        try:
            th = [threading.Thread(target=work, args=(t,)) for t in range(8)]
            for x in th:
                x.start()
            for x in th:
                x.join()
        finally:
            sys.setswitchinterval(old)
        return {"ok": not bad, "evaluations": 8 * i.get("rounds", 4000), "detail": f"wrong signature returned in thread(s) {sorted(set(bad))} while other threads were signing"}
    if kind == "wrapped":
        # a hex text wrapped in white space is not a hex-encoded byte string: it is refused like any other non-hex text
        n = 0
        for ws in (" ", "\n", "\t", "\r\n", "\x0b", "\x0c", "\xa0", "\u2003", "  "):
            for core in ("", "aabb", "fef0", "00" * 40, "AB" * 5):
                for p_ in (ws + core, core + ws, ws + core + ws, ws + core + ws + ws):
                    ok, real, sp = check_one(p_)
                    n += 1
                    if not ok:
                        return {"ok": False, "evaluations": n, "outcome": real, "expected": sp,
                                "case": {"prop": "C04", "kind": "sign", "inputs": {"p": {"t": "str", "v": p_}}}}
        return {"ok": True, "evaluations": n}
    if kind == "short_exhaustive":
        n = 0
        alphabet = [bytes([b]) for b in range(256)]
        todo = [b""]
        for ln in range(1, i["maxlen"] + 1):
            if ln == 1:
                todo += alphabet
            else:
                todo += [a + b for a in alphabet for b in alphabet]
        for raw in todo:
            ok, real, sp = check_one(raw.hex())
            n += 1
            if not ok:
                return {"ok": False, "evaluations": n, "outcome": real, "expected": sp,
                        "case": {"prop": "C04", "kind": "sign", "inputs": {"p": {"t": "str", "v": raw.hex()}}}}
        return {"ok": True, "evaluations": n}
    if kind == "crc_step":
        rnd = random.Random(i["seed"])
        bs = list(range(256)) if i["bytes"] >= 256 else [0, 255, 0x30, 0x10, 0x21] + [rnd.randrange(256)]
        n = 0
        for b in bs:
            bb = bytes([b])
            for st in range(65536):
                n += 1
                if binascii.crc_hqx(bb, st) != spec.crc16(bb, st):
                    return {"ok": False, "evaluations": n, "detail": f"crc_hqx step differs from the bitwise CRC at state {st} byte {b}"}
        return {"ok": True, "evaluations": n}
    if kind == "crc_fold":
        rnd = random.Random(i["seed"])
        for k in range(i["n"]):
            a = bytes(rnd.randrange(256) for _ in range(rnd.randrange(0, 40)))
            b = bytes(rnd.randrange(256) for _ in range(rnd.randrange(0, 40)))
            v = rnd.randrange(65536)
            if binascii.crc_hqx(a + b, v) != binascii.crc_hqx(b, binascii.crc_hqx(a, v)) or binascii.crc_hqx(b"", v) != v:
                return {"ok": False, "evaluations": k + 1, "detail": "fold law of crc_hqx violated"}
        return {"ok": True, "evaluations": i["n"]}
    raise ValueError(kind)
