import datetime
import random

from aioswitcher.api import Command
from aioswitcher.device import tools as dtools
from aioswitcher.schedule import Days
from contracts import spec
from .codec import dec, canon
from .common import compare
from . import n_api


def rnd_inputs(rnd, op):
    i = {"dev_id": canon(bytes(rnd.randrange(256) for _ in range(3))), "dev_key": canon(bytes([rnd.randrange(256)])),
         "R1": canon(bytes(rnd.randrange(256) for _ in range(rnd.choice([12, 13, 44, 60])))),
         "R2": canon(bytes(rnd.randrange(256) for _ in range(rnd.choice([0, 1, 44, 120])))),
         "now": rnd.choice([0, 1, 1700000000, 2 ** 31, 2 ** 32 - 2, rnd.randrange(2 ** 32 - 2)]) + rnd.choice([0, 0.25, 0.5, 0.75])}
    if i["now"] > 2 ** 32 - 2:
        i["now"] = 2 ** 32 - 2
    if rnd.random() < 0.15:
        # a login reply whose session id (bytes 8..12) or later bytes happen to contain the frame magic fe f0 / f0 fe
        r1 = bytearray(rnd.randrange(256) for _ in range(rnd.choice([12, 44, 60])))
        r1[8:12] = rnd.choice([b"\x17\xfe\xf0\x42", b"\xfe\xf0\x00\x01", b"\xa1\xb2\xfe\xf0", b"\xf0\xfe\xfe\xf0"])
        i["R1"] = canon(bytes(r1))
    if op == "control_device":
        i["command"] = canon(rnd.choice(list(Command)))
        i["minutes"] = rnd.choice([0, 1, -1, 59, 60, 600, 71582788, 71582789, rnd.randrange(0, 100000)])
    elif op == "set_auto_shutdown":
        i["full_time"] = {"t": "timedelta", "s": rnd.choice([0, 3599, 3600, 3601, 3659, 3660, 86339, 86340, 86399, 86400, -60,
                                                             rnd.randrange(0, 100000)])}
    elif op == "set_device_name":
        i["name"] = rnd.choice(["ab", "a", "", "x" * 32, "x" * 33, "my boiler", "דוד", "שלום עולם", "é" * 16, "é" * 17, "😀😀", "😀" * 8,
                                "😀" * 9, "a" * rnd.randrange(0, 40)] + UNNORMALISED)
    elif op == "delete_schedule":
        i["schedule_id"] = str(rnd.randrange(10))
    elif op == "create_schedule":
        t = lambda: rnd.choice(["00:00", "23:59", "7:5", "12:30", "24:00", "12:60", "1230", "12:30:15", " 12:30", "ab:cd", "",
                                f"{rnd.randrange(24):02d}:{rnd.randrange(60):02d}"])
        good = lambda: f"{rnd.randrange(24):02d}:{rnd.randrange(60):02d}"
        i["start"], i["end"] = (good(), good()) if rnd.random() < 0.6 else (t(), t())
        ds = [rnd.choice(list(Days)) for _ in range(rnd.randrange(0, 4))]
        if rnd.random() < 0.3 and ds:
            ds.append(ds[0])                      # a day named twice
        i["days"] = canon(set(ds)) if rnd.random() < 0.4 else canon(rnd.choice([ds, tuple(ds)]))
    elif op == "set_position":
        i["position"] = rnd.choice([0, 1, 15, 16, 50, 100, rnd.randrange(101)])
    return i


# names that are not in a Unicode normal form (decomposed accents, Hangul jamo, compatibility signs, Hebrew presentation forms):
# the device stores the bytes it is sent, so the frame carries exactly the caller's code points
UNNORMALISED = ["cafe\u0301", "e\u0301" * 10, "\u1112\u1161\u11ab", "\u212b\u2126", "\ufb2a\ufb2b boiler", "\u0915\u093c" * 5, "A\u030a", "\u1e9b\u0323",
                "\ufb01t", "\u00e9" + "e\u0301"]
OPS = [("control_device", 1), ("set_auto_shutdown", 1), ("set_device_name", 1), ("get_schedules", 1), ("delete_schedule", 1),
       ("create_schedule", 1), ("get_state", 1), ("stop", 1), ("stop", 2), ("set_position", 2), ("get_shutter_state", 2), ("get_breeze_state", 2)]


def run_case(c):
    k, i = c["kind"], c["inputs"]
    if k == "op":
        return {"ok": True, "outcome": {"k": "ret", "v": n_api.summary(n_api.run_operation(c["op"], c["api"], i))}}
    if k == "op_check":
        return n_api.check_c02(c["op"], c["api"], i)
    if k == "canary":
        r = n_api.run_operation("control_device", 1, i)
        return {"ok": len(r["writes"]) == 2 and r["writes"][1][85:89] == b"\x00\x00\x00\x00"}
    if k == "enc_minutes_check":
        m = dec(i["minutes"])
        return compare(lambda: dtools.minutes_to_hexadecimal_seconds(m), lambda: spec.minutes_spec(m))
    if k == "enc_timedelta_check":
        td = dec(i["full_time"])
        return compare(lambda: dtools.timedelta_to_hexadecimal_seconds(td), lambda: spec.auto_shutdown_spec(int(td.total_seconds())))
    if k == "enc_name_check":
        n = dec(i["name"])
        return compare(lambda: dtools.string_to_hexadecimale_device_name(n), lambda: spec.name_spec(n))
    if k in ("enc_minutes", "enc_timedelta", "enc_name"):
        from .common import real_outcome
        if k == "enc_minutes":
            return {"ok": True, "outcome": real_outcome(lambda: dtools.minutes_to_hexadecimal_seconds(dec(i["minutes"])))}
        if k == "enc_timedelta":
            return {"ok": True, "outcome": real_outcome(lambda: dtools.timedelta_to_hexadecimal_seconds(dec(i["full_time"])))}
        return {"ok": True, "outcome": real_outcome(lambda: dtools.string_to_hexadecimale_device_name(dec(i["name"])))}
    if k == "two_dates":
        # the same create_schedule request on different local dates in ONE process: each frame carries that day's epochs (a
        # remembered encoding of 'HH:MM' from an earlier day would be a day or more off)
        import time as _time
        from . import n_c11           # installs the date-aware today_epoch of the specification
        n = 0
        inp = {"dev_id": canon(bytes(3)), "dev_key": canon(b"\x00"), "R1": canon(bytes(44)), "R2": canon(b"ok"), "now": 1700000000,
               "start": "10:00", "end": "11:30", "days": canon({dec(canon(list(__import__("aioswitcher.schedule", fromlist=["Days"]).Days)[0]))})}
        for (y, mo, d) in ((2026, 3, 1), (2026, 3, 2), (2026, 10, 25), (2027, 1, 1), (2026, 3, 1)):
            noon = int(_time.mktime((y, mo, d, 12, 0, 0, 0, 0, -1)))
            with n_c11.fixed_today(noon):
                r = n_api.run_operation("create_schedule", 1, inp)
                ts = n_api.ts_of(1700000000)
                want = n_api.expected_frames("create_schedule", 1, inp, bytes(4), ts)
            n += 1
            if r["k"] != "ret" or [bytes(w) for w in r["writes"]] != [bytes(w) for w in want]:
                return {"ok": False, "evaluations": n, "detail": f"create_schedule 10:00-11:30 on {y}-{mo:02d}-{d:02d} (after the same request on earlier dates)",
                        "outcome": [w.hex() for w in r["writes"]], "expected": [bytes(w).hex() for w in want]}
        return {"ok": True, "evaluations": n}
    if k == "sweep":
        rnd = random.Random(i["seed"])
        for n in range(i["n"]):
            op, kind = OPS[n % len(OPS)]
            inp = rnd_inputs(rnd, op)
            r = n_api.check_c02(op, kind, inp)
            if not r["ok"]:
                r.update(evaluations=n + 1, case={"prop": "C02", "kind": "op_check", "op": op, "api": kind, "inputs": inp})
                return r
        return {"ok": True, "evaluations": i["n"]}
    if k == "encoders":
        n = 0
        rng = range(-2 * 86400, 3 * 86400 + 1) if i.get("full") else list(range(3500, 3700)) + list(range(86300, 86500)) + list(range(-120, 120)) + \
            [60 * m_ + d_ for m_ in range(55, 1445) for d_ in (0, 59)]      # every whole minute 0:55 .. 24:04 (float detours lose single minutes)
        for t in rng:
            td = datetime.timedelta(seconds=t)
            r = compare(lambda: dtools.timedelta_to_hexadecimal_seconds(td), lambda: spec.auto_shutdown_spec(t))
            n += 1
            if not r["ok"]:
                r.update(evaluations=n, case={"prop": "C02", "kind": "enc_timedelta_check", "inputs": {"full_time": {"t": "timedelta", "s": t}}})
                return r
        for m in [0, 1, -1, 71582788, 71582789, 2 ** 40, -2 ** 40] + list(range(0, 2000, 7)):
            r = compare(lambda: dtools.minutes_to_hexadecimal_seconds(m), lambda: spec.minutes_spec(m))
            n += 1
            if not r["ok"]:
                r.update(evaluations=n, case={"prop": "C02", "kind": "enc_minutes_check", "inputs": {"minutes": m}})
                return r
        for name in ["", "a", "ab", "x" * 32, "x" * 33, "דוד שמש", "שלום עולם", "é" * 16, "é" * 17, "😀" * 8, "😀" * 9, "😀😀", "boiler \x00"] + UNNORMALISED:
            r = compare(lambda: dtools.string_to_hexadecimale_device_name(name), lambda: spec.name_spec(name))
            n += 1
            if not r["ok"]:
                r.update(evaluations=n, case={"prop": "C02", "kind": "enc_name_check", "inputs": {"name": name}})
                return r
        return {"ok": True, "evaluations": n}
    raise ValueError(k)
