import random

from aioswitcher.api.remotes import SwitcherBreezeRemote
from aioswitcher.device import DeviceState, ThermostatFanLevel, ThermostatMode, ThermostatSwing
from contracts import spec
from .codec import canon, exc_name
from . import n_api
from .n_c15 import gen_irset, capabilities_spec

STATE_CODE = {"OFF": 0, "ON": 1}
MODE_CODE = {"AUTO": 1, "DRY": 2, "FAN": 3, "COOL": 4, "HEAT": 5}
FAN_CODE = {"AUTO": 0, "LOW": 1, "MEDIUM": 2, "HIGH": 3}


def state_reply(rnd):
    r = bytearray(rnd.randrange(256) for _ in range(rnd.choice([92, 100, 109])))
    r[78] = rnd.randrange(2)
    r[79] = rnd.randrange(1, 6)
    r[80] = rnd.randrange(10, 35)
    r[81] = rnd.randrange(4) * 16 + rnd.randrange(2)
    r[84:92] = bytes(rnd.randrange(33, 127) for _ in range(8))
    return bytes(r)


_POOL = []


def one(rnd):
    # remote objects are REUSED across calls (as an application does): a remote must not remember anything between calls
    if len(_POOL) < 6 or rnd.random() < 0.1:
        irs = gen_irset(rnd, density=rnd.choice([0.3, 0.9]))
        _POOL.append((irs, SwitcherBreezeRemote(irs)))
        if len(_POOL) > 12:
            _POOL.pop(0)
    irset, remote = rnd.choice(_POOL)
    sep = irset["IRSetID"] in ["ELEC7022", "ZM079055", "ZM079065", "ZM079049"]
    caps = capabilities_spec(irset)
    W = {w["Key"]: w for w in irset["IRWaveList"]}
    pick = lambda xs: rnd.choice([None] + list(xs)) if rnd.random() < 0.7 else None
    state, mode, fan, swing = pick(DeviceState), pick(ThermostatMode), pick(ThermostatFanLevel), pick(ThermostatSwing)
    t = rnd.choice([0, 0, rnd.randrange(10, 35)])
    update = rnd.random() < 0.3
    R1 = bytes(rnd.randrange(256) for _ in range(rnd.choice([0, 12, 44]))) if rnd.random() < 0.95 else b""
    R2 = state_reply(rnd) if rnd.random() < 0.95 else b""
    R3 = bytes(rnd.randrange(256) for _ in range(20)) if rnd.random() < 0.85 else b""
    R4 = bytes(rnd.randrange(256) for _ in range(20)) if rnd.random() < 0.85 else b""
    idb, keyb = bytes(rnd.randrange(256) for _ in range(3)), bytes([rnd.randrange(256)])
    now = rnd.randrange(2 ** 32 - 2) + rnd.choice([0, 0.5, 0.25])
    a = n_api.make(2, idb, keyb, [R1, R2, R3, R4])
    k, v = n_api.call(a, "control_breeze_device", [remote, state, mode, t, fan, swing, update], now)
    writes, reads = a._writer.log, a._reader.n
    one.last_writes = writes
    desc = dict(state=state and state.name, mode=mode and mode.name, fan=fan and fan.name, swing=swing and swing.name, t=t, update=update,
                sep=sep, R1=R1.hex(), R2=R2.hex(), R3=R3.hex(), R4=R4.hex(), dev_id=idb.hex(), now=now, irset=irset["IRSetID"],
                outcome=k if k == "ret" else exc_name(v), writes=[w.hex() for w in writes])
    ts = n_api.ts_of(now)
    want = [spec.login2_frame(ts, idb)]
    consumed = [R1]
    if len(R1) == 0:
        return (k == "exc" and isinstance(v, RuntimeError) and writes == want), desc, "empty login reply"
    if len(R1) < 12:
        return True, desc, "skipped"
    session = R1[8:12]
    actionable = bool(state or mode or t or fan or (swing and not sep))
    swing_frame = bool(sep and swing and not update)
    must_raise = not actionable and not swing_frame
    if actionable:
        want.append(spec.get_state2_frame(session, ts, idb))
        consumed.append(R2)
        if len(R2) == 0:
            return (k == "exc" and isinstance(v, RuntimeError) and writes == want), desc, "empty state reply"
        cur = spec.ref_thermostat(R2, 8, DeviceState, ThermostatMode, ThermostatFanLevel, ThermostatSwing)
        S, M, T, F = state or cur["state"], mode or cur["mode"], t or cur["target_temperature"], fan or cur["fan_level"]
        Sw = ThermostatSwing.OFF if sep else (swing or cur["swing"])
        if update:
            want.append(spec.breeze_update_frame(session, ts, idb, STATE_CODE[S.name], MODE_CODE[M.name], T, FAN_CODE[F.name], STATE_CODE[Sw.name]))
        else:
            if M not in caps["modes"]:
                return (k == "exc" and isinstance(v, RuntimeError) and writes == want), desc, "unsupported mode"
            key = spec.ir_key_spec(W, caps["toggle"], caps["min"], caps["max"], S == DeviceState.ON, M.name, T, F.name,
                                   Sw == ThermostatSwing.ON, True, cur["state"] == DeviceState.ON)
            if key is None or key not in W:
                return True, desc, "unconstrained"
            want.append(spec.breeze_command_frame(session, ts, idb, spec.command_payload(W[key]["Para"], W[key]["HexCode"])))
        consumed.append(R3)
        if len(R3) == 0:
            must_raise = True
    if swing_frame and not must_raise:
        key = spec.swing_key_spec(swing == ThermostatSwing.ON)
        if key in W:
            want.append(spec.breeze_command_frame(session, ts, idb, spec.command_payload(W[key]["Para"], W[key]["HexCode"])))
            consumed.append(R4 if actionable else R2)
        else:
            must_raise = True
    ok = writes == want
    if must_raise:
        ok = ok and k == "exc" and isinstance(v, RuntimeError)
    else:
        ok = ok and k == "ret" and v.unparsed_response == consumed[-1]
    if k == "ret" and v.successful and any(len(x) == 0 for x in consumed):
        ok = False
    return ok, desc, "frames / outcome"


def repeat_pair(rnd):
    """the same request twice on ONE toggle remote while the device reports a different power state the second time:
    the second command must be rebuilt from the new current state (a remote that remembers its last answer fails)"""
    irs = gen_irset(rnd, density=1.0, toggle=True, sep=False)
    remote = SwitcherBreezeRemote(irs)
    caps = capabilities_spec(irs)
    W = {w["Key"]: w for w in irs["IRWaveList"]}
    state = rnd.choice(list(DeviceState))
    mode = rnd.choice(sorted(caps["modes"], key=lambda m: m.name))
    fan = rnd.choice(list(ThermostatFanLevel))
    swing = rnd.choice(list(ThermostatSwing))
    t = rnd.randrange(caps["min"], caps["max"] + 1) if caps["min"] <= caps["max"] else 20
    idb, keyb = bytes(3), b"\x00"
    for cur_on in (1, 0, 1):
        R2 = bytearray(state_reply(rnd))
        R2[78] = cur_on
        R2 = bytes(R2)
        R1 = bytes(rnd.randrange(256) for _ in range(44))
        a = n_api.make(2, idb, keyb, [R1, R2, b"ok", b"ok"])
        k, v = n_api.call(a, "control_breeze_device", [remote, state, mode, t, fan, swing, False], 1700000000)
        key = spec.ir_key_spec(W, True, caps["min"], caps["max"], state == DeviceState.ON, mode.name, t, fan.name,
                               swing == ThermostatSwing.ON, True, cur_on == 1)
        if key is None or key not in W:
            continue
        want = spec.breeze_command_frame(R1[8:12], n_api.ts_of(1700000000), idb, spec.command_payload(W[key]["Para"], W[key]["HexCode"]))
        ws = a._writer.log
        if len(ws) < 3 or ws[2] != want:
            return False, dict(state=state.name, mode=mode.name, fan=fan.name, swing=swing.name, t=t, current_on=cur_on, expected_key=key)
    return True, None


def run_case(c):
    k, i = c["kind"], c["inputs"]
    if k == "canary":
        return {"ok": False}
    if k == "stale":
        # one API object: a good thermostat control, then one whose state reply is empty -> must raise, never act on remembered state
        rnd = random.Random(i["seed"])
        for n in range(i["n"]):
            irs = gen_irset(rnd, density=1.0, toggle=False, sep=False)
            remote = SwitcherBreezeRemote(irs)
            a = n_api.make(2, bytes(3), b"\x00", [])
            for step, R2 in enumerate((state_reply(rnd), b"", state_reply(rnd), bytes(5))):
                a._reader = n_api.FakeReader([bytes(44), R2, b"ok", b"ok"])
                a._writer = n_api.FakeWriter()
                k2, v = n_api.call(a, "control_breeze_device", [remote, DeviceState.ON, None, 0, None, None, False], 1700000000)
                bad_reply = len(R2) < 92
                if bad_reply and not (k2 == "exc" and isinstance(v, RuntimeError) and len(a._writer.log) == 2):
                    return {"ok": False, "evaluations": 4 * n + step + 1, "detail": f"call #{step + 1} on the same API object with an unreadable state reply "
                            f"({len(R2)} bytes): {'returned' if k2 == 'ret' else exc_name(v)}, {len(a._writer.log)} frames"}
        return {"ok": True, "evaluations": 4 * i["n"]}
    if k == "repeats":
        rnd = random.Random(i["seed"])
        for n in range(i["n"]):
            ok, desc = repeat_pair(rnd)
            if not ok:
                return {"ok": False, "evaluations": 3 * (n + 1), "detail": "repeated request on one remote object: stale command", "request": desc}
        return {"ok": True, "evaluations": 3 * i["n"]}
    if k == "sweep":
        rnd = random.Random(i["seed"])
        for n in range(i["n"]):
            ok, desc, why = one(rnd)
            if not ok:
                return {"ok": False, "evaluations": n + 1, "detail": why, "request": desc}
        return {"ok": True, "evaluations": i["n"]}
    raise ValueError(k)
