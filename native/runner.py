"""Runs native cases on the real aioswitcher package (interpreter: /venv/bin/python, PYTHONPATH=/repo/src:/verif).
A case is {"prop": "C04", "kind": ..., "inputs": {...}}; the property's native module decides what it means."""
import importlib
import json
import sys
import traceback


def main():
    with open(sys.argv[1]) as fh:
        cases = json.load(fh)
    out = []
    mods = {}
    for c in cases:
        try:
            name = "native.n_" + c["prop"].lower()
            if name not in mods:
                mods[name] = importlib.import_module(name)
            r = mods[name].run_case(c)
            r.setdefault("case", c)
        except Exception:
            r = {"ok": None, "error": traceback.format_exc()[-1500:], "case": c}
        out.append(r)
    json.dump(out, sys.stdout, default=str)


if __name__ == "__main__":
    main()
