import calendar
import datetime
import os
import random
import time

import aioswitcher.schedule.tools as tools
from contracts import spec
from .codec import dec, canon
from .common import compare, real_outcome


class fixed_today:
    """the module's `time` replaced by a shim whose strftime(fmt) (no tuple) formats a fixed instant"""
    def __init__(self, epoch):
        self.epoch = epoch

    def __enter__(self):
        real, epoch = time, self.epoch

        class Shim:
            def __getattr__(self, n):
                return getattr(real, n)

            def strftime(self, fmt, t=None):
                return real.strftime(fmt, real.localtime(epoch) if t is None else t)
        self.saved = tools.time
        tools.time = Shim()
        spec_today["epoch"] = epoch

    def __exit__(self, *a):
        tools.time = self.saved
        spec_today["epoch"] = None


spec_today = {"epoch": None}


def today_epoch(h, m):
    lt = time.localtime(spec_today["epoch"] if spec_today["epoch"] is not None else time.time())
    return int(time.mktime((lt.tm_year, lt.tm_mon, lt.tm_mday, h, m, 0, 0, 0, -1)))


spec.today_epoch = today_epoch


def enc_check(v):
    return compare(lambda: tools.time_to_hexadecimal_timestamp(v), lambda: spec.time_encode_spec(v))


def set_zone(z):
    os.environ["TZ"] = z
    time.tzset()


def exists_today(h, m):
    t = today_epoch(h, m)
    lt = time.localtime(t)
    return lt.tm_hour == h and lt.tm_min == m


def run_case(c):
    k, i = c["kind"], c["inputs"]
    if k == "encode":
        return {"ok": True, "outcome": real_outcome(lambda: tools.time_to_hexadecimal_timestamp(dec(i["v"])))}
    if k == "encode_check":
        return enc_check(dec(i["v"]))
    if k == "canary":
        r = real_outcome(lambda: tools.time_to_hexadecimal_timestamp(dec(i["v"])))
        return {"ok": r["k"] == "exc"}
    if k in ("decode", "decode_check"):
        h = dec(i["stamp"]).hex().encode()
        if k == "decode":
            return {"ok": True, "outcome": real_outcome(lambda: tools.hexadecimale_timestamp_to_localtime(h))}
        return compare(lambda: tools.hexadecimale_timestamp_to_localtime(h), lambda: spec.time_decode_spec(h))
    if k == "strings":
        rnd = random.Random(i["seed"])
        pool = ["00:00", "23:59", "7:5", "07:05", "24:00", "12:60", "1230", "", ":", "12:", ":30", "12:30:15", "12:30:", " 12:30", "12:30 ",
                "12 :30", "\t9:15", "ab:cd", "1:2:3", "٢١:٠٠", "1٥:00", "12:3x", "-1:30", "+1:30", "1_2:30", "012:30", "12:030"]
        for _ in range(300):
            pool.append("".join(rnd.choice("0123456789: x") for _ in range(rnd.randrange(0, 7))))
        n = 0
        for v in pool:
            r = enc_check(v)
            n += 1
            if not r["ok"]:
                r.update(evaluations=n, case={"prop": "C11", "kind": "encode_check", "inputs": {"v": v}})
                return r
        return {"ok": True, "evaluations": n}
    if k == "zone_sweep":
        saved = os.environ.get("TZ")
        n = 0
        try:
            set_zone(i["zone"])
            year = 2026
            dates = [(year, 1, 1), (year, 12, 31), (2028, 2, 29), (year, 6, 15), (year, 3, 29)]
            if i["dates"] == "transitions":
                # every day on which the UTC offset differs from the previous day, +-1 day, in two years
                for y in (year, year + 1):
                    prev = None
                    for doy in range(366):
                        d = datetime.date(y, 1, 1) + datetime.timedelta(days=doy)
                        off = time.localtime(calendar.timegm((d.year, d.month, d.day, 12, 0, 0))).tm_gmtoff
                        if prev is not None and off != prev:
                            for dd in (-1, 0, 1):
                                x = d + datetime.timedelta(days=dd)
                                dates.append((x.year, x.month, x.day))
                        prev = off
            # the days around every new year 2024..2030 (ISO week-years, leap years, year-dependent date formats), on a coarse
            # minute grid; the other dates on every minute
            coarse = set()
            for y in range(2024, 2031):
                for (mo, d) in ((12, 28), (12, 29), (12, 30), (12, 31), (1, 1), (1, 2), (1, 3), (1, 4)):
                    if (y, mo, d) not in dates:
                        coarse.add((y, mo, d))
            for (y, mo, d) in sorted(set(dates) | coarse):
                noon = int(time.mktime((y, mo, d, 12, 0, 0, 0, 0, -1)))
                with fixed_today(noon):
                    for minute in (range(0, 1440, 97) if (y, mo, d) in coarse else range(1440)):
                        h, m = divmod(minute, 60)
                        v = f"{h:02d}:{m:02d}"
                        n += 1
                        hexs = tools.time_to_hexadecimal_timestamp(v)
                        if hexs != spec.time_encode_spec(v):
                            return {"ok": False, "evaluations": n, "detail": f"encode {v} on {y}-{mo}-{d} in {i['zone']}",
                                    "case": {"prop": "C11", "kind": "encode_check", "inputs": {"v": v}}}
                        back = tools.hexadecimale_timestamp_to_localtime(hexs.encode())
                        if back != spec.time_decode_spec(hexs.encode()):
                            return {"ok": False, "evaluations": n, "detail": f"decode {hexs} in {i['zone']}"}
                        if exists_today(h, m) and back != v:
                            return {"ok": False, "evaluations": n, "detail": f"round trip {v} -> {back} on {y}-{mo}-{d} in {i['zone']}"}
            return {"ok": True, "evaluations": n}
        finally:
            if saved is None:
                os.environ.pop("TZ", None)
            else:
                os.environ["TZ"] = saved
            time.tzset()
    raise ValueError(k)
