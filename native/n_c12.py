import itertools
import random

from aioswitcher.schedule import Days
from aioswitcher.schedule.tools import bit_summary_to_days, weekdays_to_hexadecimal
from contracts import spec
from .codec import dec, canon
from .common import compare


def enc(days):
    return compare(lambda: weekdays_to_hexadecimal(days), lambda: spec.weekdays_encode_spec(days, Days))


def decd(mask):
    return compare(lambda: bit_summary_to_days(mask), lambda: spec.weekdays_decode_spec(mask, Days))


def run_case(c):
    k, i = c["kind"], c["inputs"]
    if k == "encode":
        return enc(dec(i["days"]))
    if k == "decode":
        return decd(dec(i["mask"]))
    if k == "canary":
        m = dec(i["mask"])
        return {"ok": Days.MONDAY not in bit_summary_to_days(m)}
    if k == "table":
        n = 0
        members = list(Days)
        for size in range(0, 8):
            for combo in itertools.combinations(members, size):
                for form in (set(combo), list(combo), tuple(reversed(combo)), frozenset(combo)):
                    r = enc(form)
                    n += 1
                    if not r["ok"]:
                        shown = set(form) if isinstance(form, frozenset) else form
                        r.update(evaluations=n, detail="input form " + type(form).__name__,
                                 case={"prop": "C12", "kind": "encode", "inputs": {"days": canon(shown)}})
                        return r
                if combo:
                    h = weekdays_to_hexadecimal(set(combo))
                    n += 1
                    if len(h) != 2 or int(h, 16) % 2 or bit_summary_to_days(int(h, 16)) != set(combo):
                        return {"ok": False, "evaluations": n, "detail": "round trip", "case": {"prop": "C12", "kind": "encode", "inputs": {"days": canon(set(combo))}}}
        for d in members:
            r = enc(d)
            n += 1
            if not r["ok"]:
                r.update(evaluations=n, case={"prop": "C12", "kind": "encode", "inputs": {"days": canon(d)}})
                return r
        for mask in list(range(-3, 300)) + [1 << 20, -255] + list(range(2, 255)):
            r = decd(mask)
            n += 1
            if r["ok"] and r["outcome"]["k"] == "ret":
                # a caller may edit the set it was given; a later decode of the same mask must not see that edit
                bit_summary_to_days(mask).symmetric_difference_update({Days.MONDAY, Days.SATURDAY})
            if not r["ok"]:
                r.update(evaluations=n, case={"prop": "C12", "kind": "decode", "inputs": {"mask": mask}})
                return r
        return {"ok": True, "evaluations": n}
    if k == "sequences":
        rnd = random.Random(i["seed"])
        members = list(Days)
        for n in range(i["n"]):
            ln = rnd.randrange(0, 12)
            seq = [rnd.choice(members) for _ in range(ln)]
            if n % 2:
                seq = tuple(seq)
            r = enc(seq)
            if not r["ok"]:
                r.update(evaluations=n + 1, case={"prop": "C12", "kind": "encode", "inputs": {"days": canon(seq)}})
                return r
        return {"ok": True, "evaluations": i["n"]}
    raise ValueError(k)
