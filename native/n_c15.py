import json
import os
import random
import tempfile

from aioswitcher.api.remotes import (SwitcherBreezeCommand, SwitcherBreezeRemote, SwitcherBreezeRemoteManager,
                                     SPECIAL_SWING_COMMAND_REMOTE_IDS)
from aioswitcher.device import DeviceState, ThermostatFanLevel, ThermostatMode, ThermostatSwing
from contracts import spec
from .codec import exc_name

MODES = {"aa": ThermostatMode.AUTO, "ad": ThermostatMode.DRY, "aw": ThermostatMode.FAN, "ar": ThermostatMode.COOL, "ah": ThermostatMode.HEAT}


def gen_irset(rnd, density=None, toggle=None, sep=None):
    density = rnd.choice([0.05, 0.2, 0.5, 0.9]) if density is None else density
    toggle = rnd.random() < 0.5 if toggle is None else toggle
    sep = rnd.random() < 0.3 if sep is None else sep
    waves = []
    lo, hi = sorted((rnd.randrange(10, 31), rnd.randrange(10, 35)))
    prefixes = ["", "on_"] if toggle else [""]

    def add(key):
        if rnd.random() < density:
            n = rnd.choice([1, 3, 10, 60, 120, 250, 600, 940, 1500, 1985])
            waves.append({"Key": key, "Para": "".join(rnd.choice("0123456789ABCDEF,") for _ in range(rnd.randrange(1, 12))),
                          "HexCode": "".join(rnd.choice("0123456789ABCDEF") for _ in range(n))})
    for p in prefixes:
        for code in ("aa", "ad", "aw"):
            add(p + code)
            for f in range(4):
                add(f"{p}{code}_f{f}")
                add(f"{p}{code}_f{f}_d1")
        for code in ("ar", "ah"):
            for t in range(lo, hi + 1):
                add(f"{p}{code}{t}")
                for f in range(4):
                    add(f"{p}{code}{t}_f{f}")
                    add(f"{p}{code}{t}_f{f}_d1")
    if not toggle:
        add("off") if rnd.random() < 0.2 else waves.append({"Key": "off", "Para": "P", "HexCode": "AB" * rnd.randrange(1, 300)})
    if sep or rnd.random() < 0.15:
        # ordinary sets may carry the FUN_d0 / FUN_d1 keys too: what makes a remote a separate-swing remote is its id
        for k in ("FUN_d0", "FUN_d1"):
            if rnd.random() < 0.8:
                waves.append({"Key": k, "Para": "S", "HexCode": "CD" * rnd.randrange(1, 40)})
    rnd.shuffle(waves)
    rid = rnd.choice(SPECIAL_SWING_COMMAND_REMOTE_IDS) if sep else "ELEC" + str(rnd.randrange(1000, 9999))
    while not sep and rid in SPECIAL_SWING_COMMAND_REMOTE_IDS:
        rid = "ELEC" + str(rnd.randrange(1000, 9999))      # an ordinary id must not collide with a separate-swing id
    return {"IRSetID": rid, "OnOffType": 1 if toggle else 0, "IRWaveList": waves}


def capabilities_spec(irset):
    """fold specification of the reported capabilities"""
    modes = []
    mn, mx = 100, -100
    for w in irset["IRWaveList"]:
        k = w["Key"]
        if k[0:2] in MODES and MODES[k[0:2]] not in modes:
            modes.append(MODES[k[0:2]])
        if k[2:4].isdigit():
            mn, mx = min(mn, int(k[2:4])), max(mx, int(k[2:4]))
    return {"modes": set(modes), "min": mn, "max": mx, "toggle": irset["OnOffType"] == 1,
            "sep": irset["IRSetID"] in ["ELEC7022", "ZM079055", "ZM079065", "ZM079049"]}


def check_command(cmd, entry):
    payload = spec.command_payload(entry["Para"], entry["HexCode"])
    return cmd.command == spec.hexs(payload) and cmd.length == spec.hexs(spec.le16(len(payload)))


def check_request(remote, W, caps, rnd):
    state = rnd.choice(list(DeviceState))
    mode = rnd.choice(list(ThermostatMode))
    fan = rnd.choice(list(ThermostatFanLevel))
    swing = rnd.choice(list(ThermostatSwing))
    prev = rnd.choice([None] + list(DeviceState))
    t = rnd.choice([caps["min"], caps["max"], caps["min"] - 1, caps["max"] + 1, rnd.randrange(0, 45)])
    req = dict(state=state.name, mode=mode.name, fan=fan.name, swing=swing.name, prev=prev.name if prev else None, t=t)
    try:
        cmd = remote.build_command(state, mode, t, fan, swing, prev)
        out = ("ret", cmd)
    except Exception as e:
        out = ("exc", e)
    if mode not in caps["modes"]:
        ok = out[0] == "exc" and isinstance(out[1], RuntimeError) and all(m.display in str(out[1]) for m in caps["modes"])
        return ok, req, "unsupported mode must raise RuntimeError naming the supported modes"
    key = spec.ir_key_spec(W, caps["toggle"], caps["min"], caps["max"], state == DeviceState.ON, mode.name, t, fan.name,
                           swing == ThermostatSwing.ON, prev is not None, prev == DeviceState.ON)
    if key is None or key not in W:
        return True, req, "unconstrained"
    ok = out[0] == "ret" and check_command(out[1], W[key])
    return ok, req, f"expected the code stored under {key!r}; got " + (exc_name(out[1]) if out[0] == "exc" else "another command")


def run_case(c):
    k, i = c["kind"], c["inputs"]
    if k == "canary":
        r = SwitcherBreezeRemote({"IRSetID": "X", "OnOffType": 0, "IRWaveList": [{"Key": "off", "Para": "P", "HexCode": "AB"},
                                                                                    {"Key": "ar25", "Para": "P", "HexCode": "AB"}]})
        cmd = r.build_command(DeviceState.OFF, ThermostatMode.COOL, 25, ThermostatFanLevel.LOW, ThermostatSwing.OFF)
        return {"ok": cmd.command == "00000000"}
    if k == "sweep":
        rnd = random.Random(i["seed"])
        n = 0
        for s in range(i["sets"]):
            irset = gen_irset(rnd)
            caps = capabilities_spec(irset)
            try:
                remote = SwitcherBreezeRemote(irset)
            except Exception as e:
                return {"ok": False, "evaluations": n, "detail": "constructor raised " + exc_name(e), "irset": irset}
            n += 1
            got = {"modes": set(remote.supported_modes), "min": remote.min_temperature, "max": remote.max_temperature,
                   "toggle": remote.on_off_type, "sep": remote.separated_swing_command}
            if got != caps:
                return {"ok": False, "evaluations": n, "detail": "capabilities", "outcome": str(got), "expected": str(caps), "irset": irset}
            W = {}
            for w in irset["IRWaveList"]:
                W[w["Key"]] = {"Para": w["Para"], "HexCode": w["HexCode"]}
            for _ in range(i["requests"]):
                ok, req, why = check_request(remote, W, caps, rnd)
                n += 1
                if not ok:
                    return {"ok": False, "evaluations": n, "detail": why, "request": req, "irset": irset}
            for sw in ThermostatSwing:
                key = spec.swing_key_spec(sw == ThermostatSwing.ON)
                n += 1
                try:
                    cmd = remote.build_swing_command(sw)
                    ok = key in W and check_command(cmd, W[key])
                except RuntimeError:
                    ok = key not in W
                except Exception:
                    ok = False
                if not ok:
                    return {"ok": False, "evaluations": n, "detail": "build_swing_command " + sw.name, "irset": irset}
            for L in (1, 5, 15, 16, 255, 256, 500, 2000):
                n += 1
                cmd = SwitcherBreezeCommand("ab" * L)
                if cmd.length != spec.hexs(spec.le16(L)) or cmd.command != "ab" * L:
                    return {"ok": False, "evaluations": n, "detail": f"SwitcherBreezeCommand length for {L} bytes: {cmd.length}"}
        return {"ok": True, "evaluations": n}
    if k == "manager":
        # two managers on two database files that use the SAME ids for different sets; ids requested in an interleaved order,
        # repeated, one unknown id in between: every remote returned must be the remote of that id in that manager's file
        rnd = random.Random(i["seed"])
        ids = [f"TEST{j:04d}" for j in range(4)]
        dbs = []
        for _ in range(2):
            db = {}
            for rid in ids:
                s_ = gen_irset(rnd, 0.3)
                s_["IRSetID"] = rid
                db[rid] = s_
            dbs.append(db)
        d = tempfile.mkdtemp(prefix="pyvc_ir_")
        paths = [os.path.join(d, f"db{j}.json") for j in range(2)]
        n = 0
        try:
            for p, db in zip(paths, dbs):
                with open(p, "w") as fd:
                    json.dump(db, fd)
            ms = [SwitcherBreezeRemoteManager(p) for p in paths]
            plan = [(0, ids[1]), (0, ids[1]), (0, ids[2]), (1, ids[1]), (0, "NOPE0000"), (1, ids[0]), (0, ids[1]), (1, "NOPE0000"), (0, ids[0]),
                    (1, ids[2]), (0, ids[3]), (0, "NOPE0000"), (1, ids[3]), (0, ids[2]), (1, ids[1])]
            plan += [(rnd.randrange(2), rnd.choice(ids + ["NOPE0000"])) for _ in range(20)]
            first = {}
            for step, (mi, rid) in enumerate(plan):
                n += 1
                where = f"step {step}: manager {mi}.get_remote({rid!r}) after {plan[:step]}"
                try:
                    r = ms[mi].get_remote(rid)
                except KeyError as e:
                    if rid in dbs[mi]:
                        return {"ok": False, "evaluations": n, "detail": where + " raised " + exc_name(e)}
                    continue
                except Exception as e:
                    return {"ok": False, "evaluations": n, "detail": where + " raised " + exc_name(e)}
                if rid not in dbs[mi]:
                    return {"ok": False, "evaluations": n, "detail": where + " returned a remote for an id the file does not hold"}
                irset = dbs[mi][rid]
                caps = capabilities_spec(irset)
                got = {"modes": set(r.supported_modes), "min": r.min_temperature, "max": r.max_temperature,
                       "toggle": r.on_off_type, "sep": r.separated_swing_command}
                if r.remote_id != rid or got != caps:
                    return {"ok": False, "evaluations": n, "detail": where + ": capabilities / id of another set", "outcome": str(got),
                            "expected": str(caps)}
                if first.setdefault((mi, rid), r) is not r:
                    return {"ok": False, "evaluations": n, "detail": where + ": not the remote loaded earlier for this id"}
                W = {}
                for w in irset["IRWaveList"]:
                    W[w["Key"]] = {"Para": w["Para"], "HexCode": w["HexCode"]}
                for _ in range(15):
                    ok, req, why = check_request(r, W, caps, rnd)
                    n += 1
                    if not ok:
                        return {"ok": False, "evaluations": n, "detail": where + ": " + why, "request": req}
            return {"ok": True, "evaluations": n}
        finally:
            for p in paths:
                if os.path.exists(p):
                    os.unlink(p)
            os.rmdir(d)
    raise ValueError(k)
