from aioswitcher import api, bridge, device
from aioswitcher.device import DeviceCategory, DeviceState, DeviceType

CLASS_CATEGORY = {"SwitcherPowerPlug": "POWER_PLUG", "SwitcherWaterHeater": "WATER_HEATER", "SwitcherThermostat": "THERMOSTAT",
                  "SwitcherShutter": "SHUTTER"}
PORTS = {1: {"udp": 20002, "tcp": 9957}, 2: {"udp": 20003, "tcp": 10000}}
NARGS = {"SwitcherPowerPlug": 9, "SwitcherWaterHeater": 11, "SwitcherThermostat": 13, "SwitcherShutter": 9}


def run_case(c):
    if c["kind"] == "canary":
        return {"ok": DeviceType.BREEZE.protocol_type == 1}
    n = 0
    bad = []
    for cname, cat in CLASS_CATEGORY.items():
        klass = getattr(device, cname)
        import dataclasses
        nargs = len([f for f in dataclasses.fields(klass) if f.init])
        for t in DeviceType:
            n += 1
            try:
                klass(t, DeviceState.ON, *(["x"] * (nargs - 2)))
                accepted = True
            except ValueError:
                accepted = False
            if accepted != (t.category.name == cat):
                bad.append(f"{cname}({t.name}) accepted={accepted}")
    codes = [t.hex_rep.lower() for t in DeviceType]
    for t in DeviceType:
        n += 1
        if codes.count(t.hex_rep.lower()) != 1 or len(t.hex_rep) != 4 or t.protocol_type not in (1, 2) or not isinstance(t.category, DeviceCategory):
            bad.append("type " + t.name)
        if api.SWITCHER_DEVICE_TO_TCP_PORT.get(t.category) != PORTS.get(t.protocol_type, {}).get("tcp"):
            bad.append("tcp port " + t.name)
        if bridge.SWITCHER_DEVICE_TO_UDP_PORT.get(t.category) != PORTS.get(t.protocol_type, {}).get("udp"):
            bad.append("udp port " + t.name)
    if set(api.SWITCHER_DEVICE_TO_TCP_PORT) != set(DeviceCategory) or set(bridge.SWITCHER_DEVICE_TO_UDP_PORT) != set(DeviceCategory):
        bad.append("table domain")
    return {"ok": not bad, "evaluations": n, "detail": bad[:5]}
