from aioswitcher import api, bridge, device
from aioswitcher.device import DeviceCategory, DeviceState, DeviceType

CLASS_CATEGORY = {"SwitcherPowerPlug": "POWER_PLUG", "SwitcherWaterHeater": "WATER_HEATER", "SwitcherThermostat": "THERMOSTAT",
                  "SwitcherShutter": "SHUTTER"}
PORTS = {1: {"udp": 20002, "tcp": 9957}, 2: {"udp": 20003, "tcp": 10000}}
NARGS = {"SwitcherPowerPlug": 9, "SwitcherWaterHeater": 11, "SwitcherThermostat": 13, "SwitcherShutter": 9}


def table_problems():
    import dataclasses
    bad = []
    for cname, cat in CLASS_CATEGORY.items():
        klass = getattr(device, cname)
        nargs = len([f for f in dataclasses.fields(klass) if f.init])
        for t in DeviceType:
            try:
                klass(t, DeviceState.ON, *(["x"] * (nargs - 2)))
                accepted = True
            except ValueError:
                accepted = False
            if accepted != (t.category.name == cat):
                bad.append(f"{cname}({t.name}) accepted={accepted}")
    for t in DeviceType:
        if api.SWITCHER_DEVICE_TO_TCP_PORT.get(t.category) != PORTS.get(t.protocol_type, {}).get("tcp"):
            bad.append("tcp port " + t.name)
        if bridge.SWITCHER_DEVICE_TO_UDP_PORT.get(t.category) != PORTS.get(t.protocol_type, {}).get("udp"):
            bad.append("udp port " + t.name)
    return bad


def run_case(c):
    if c["kind"] == "canary":
        return {"ok": DeviceType.BREEZE.protocol_type == 1}
    if c["kind"] == "after_use":
        # the consistency must survive ordinary use of the library: objects built with default arguments, broadcasts parsed
        # (good, malformed, with a raising callback), operations run
        import warnings
        from .n_c05 import gen
        import random
        rnd = random.Random(7)
        b1 = bridge.SwitcherBridge(lambda d: None)
        b2 = bridge.SwitcherBridge(lambda d: None)
        if list(b1._broadcast_ports) != list(b2._broadcast_ports) or not {20002, 20003} <= set(b2._broadcast_ports):
            return {"ok": False, "detail": f"default bridge ports: {b1._broadcast_ports} then {b2._broadcast_ports}"}
        api.SwitcherType1Api("192.0.2.1", "ab1234", "00")
        api.SwitcherType2Api("192.0.2.1", "ab1234", "00")

        def boom(d):
            raise RuntimeError("callback")
        proto = bridge.UdpClientProtocol(bridge.partial(bridge._parse_device_from_datagram, boom))
        with warnings.catch_warnings():
            warnings.simplefilter("ignore")
            for k in range(40):
                m = bytearray(gen(rnd))
                if k % 3 == 0:
                    m[42:74] = b"\xff" * 32
                if k % 5 == 0:
                    m[74:76] = b"\xff\xff"
                try:
                    proto.datagram_received(bytes(m), ("192.0.2.9", 20002))
                except Exception:
                    pass
        bad = table_problems()
        return {"ok": not bad, "evaluations": 45, "detail": bad[:5]}
    n = 0
    bad = []
    for cname, cat in CLASS_CATEGORY.items():
        klass = getattr(device, cname)
        import dataclasses
        nargs = len([f for f in dataclasses.fields(klass) if f.init])
        for t in DeviceType:
            # the guard depends on the device type alone: ordinary readings, boundary readings (zero, empty, None) and mixtures
            fillers = [["x"] * (nargs - 2), [0] * (nargs - 2), [""] * (nargs - 2), [None] * (nargs - 2), [0.0] * (nargs - 2)]
            fillers += [[(0 if j == k else "x") for j in range(nargs - 2)] for k in range(nargs - 2)]
            for fill in fillers:
                n += 1
                try:
                    klass(t, DeviceState.ON, *fill)
                    accepted = True
                except ValueError:
                    accepted = False
                if accepted != (t.category.name == cat):
                    bad.append(f"{cname}({t.name}, fields={fill!r}) accepted={accepted}")
    codes = [t.hex_rep.lower() for t in DeviceType]
    for t in DeviceType:
        n += 1
        if codes.count(t.hex_rep.lower()) != 1 or len(t.hex_rep) != 4 or t.protocol_type not in (1, 2) or not isinstance(t.category, DeviceCategory):
            bad.append("type " + t.name)
        if api.SWITCHER_DEVICE_TO_TCP_PORT.get(t.category) != PORTS.get(t.protocol_type, {}).get("tcp"):
            bad.append("tcp port " + t.name)
        if bridge.SWITCHER_DEVICE_TO_UDP_PORT.get(t.category) != PORTS.get(t.protocol_type, {}).get("udp"):
            bad.append("udp port " + t.name)
    if set(api.SWITCHER_DEVICE_TO_TCP_PORT) != set(DeviceCategory) or set(bridge.SWITCHER_DEVICE_TO_UDP_PORT) != set(DeviceCategory):
        bad.append("table domain")
    return {"ok": not bad, "evaluations": n, "detail": bad[:5]}
