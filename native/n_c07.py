"""native side of C07: datagram SEQUENCES fed straight into UdpClientProtocol.datagram_received (no sockets), and mixed traffic
over loopback UDP through a real running bridge (E2 exercised with the real event loop)"""
import asyncio
import random
import socket
import warnings

from aioswitcher import bridge
from aioswitcher.device import DeviceType
from .codec import dec, canon
from .n_c05 import gen, expected, obj_canon
from .n_c17 import free_udp_ports


def classify(m):
    """'deliver' (with the reference device), 'none' (must not be delivered: fails the gate or unknown model) or 'either'
    (passes the gate with a known model but is not a well-formed broadcast of that family, e.g. a truncated Breeze frame
    that happens to be 165 bytes long: the statement does not say whether that is a 'valid broadcast')"""
    from contracts import spec
    from .n_c05 import BY_CODE
    e = expected(m)
    if e is not None:
        return "deliver", e
    if not spec.gate_spec(m) or spec.model_code(m) not in BY_CODE:
        return "none", None
    return "either", None


def bad_datagram(rnd, good):
    k = rnd.randrange(5)
    if k == 0:
        b = bytearray(rnd.randrange(256) for _ in range(rnd.randrange(0, 200)))
        if b:
            b[0] = rnd.randrange(0xFE)          # never the magic
        return bytes(b)
    if k == 1:
        return good[:rnd.randrange(0, len(good))]
    if k == 2:
        g = bytearray(good)
        g[74:76] = b"\xff\xff"
        return bytes(g)
    if k == 3:
        g = bytearray(good)
        g[0] = 0
        return bytes(g)
    g = bytearray(good)
    g[42:74] = b"\xff" * 32          # ill-formed UTF-8 name
    return bytes(g)


def feed(proto, m):
    with warnings.catch_warnings():
        warnings.simplefilter("ignore")
        try:
            proto.datagram_received(m, ("192.0.2.9", 20002))
        except Exception:
            pass


def run_case(c):
    k, i = c["kind"], c["inputs"]
    if k == "canary":
        return {"ok": False}
    if k == "one":
        m = dec(i["m"])
        calls = []

        def cb(d):
            calls.append(d)
            raise RuntimeError("callback")
        try:
            bridge._parse_device_from_datagram(cb, m)
        except Exception:
            pass
        return {"ok": len(calls) <= 1, "outcome": len(calls)}
    if k == "sequences":
        rnd = random.Random(i["seed"])
        n = 0
        for _ in range(i["n"]):
            log = []
            count = [0]

            def cb(d):
                count[0] += 1
                log.append(obj_canon(d))
                if count[0] % 3 == 0:
                    raise RuntimeError("user callback failed")
            handler = cb
            if _ % 3 == 2:
                # a callable that is falsy (sized and empty): any callable must be called, whatever its truth value
                class Registry:
                    def __len__(self):
                        return 0

                    def __call__(self, d):
                        return cb(d)
                handler = Registry()
            proto = bridge.UdpClientProtocol(bridge.partial(bridge._parse_device_from_datagram, handler))
            from .n_c08 import fields_agree
            seen = []
            for step in range(rnd.randrange(1, 25)):
                good = gen(rnd)
                m = good if rnd.random() < 0.5 else bad_datagram(rnd, good)
                if seen and rnd.random() < 0.3:
                    # devices repeat their status broadcast: a byte-identical datagram is a new broadcast each time
                    m = rnd.choice(seen)
                seen.append(m)
                kind, e = classify(m)
                before = len(log)
                feed(proto, m)
                n += 1
                got = log[before:]
                ok = (kind == "deliver" and len(got) == 1) or (kind == "none" and not got) or (kind == "either" and len(got) <= 1)
                if ok and kind == "deliver":
                    cname, fields = e
                    ok = got[0]["cls"] == cname and fields_agree({"k": "ret", "v": got[0]}, {"k": "ret", "v": canon(fields)})
                if not ok:
                    return {"ok": False, "evaluations": n, "detail": f"datagram #{step + 1} of the sequence ({kind}): {len(got)} deliveries / wrong device",
                            "datagram": m.hex()}
        return {"ok": True, "evaluations": n}
    if k == "loopback":
        rnd = random.Random(i["seed"])

        async def go():
            ports = free_udp_ports(2)
            log = []
            count = [0]

            def cb(d):
                count[0] += 1
                log.append((d.device_id, d.name))
                if count[0] % 4 == 0:
                    raise RuntimeError("user callback failed")
            loop = asyncio.get_running_loop()
            loop.set_exception_handler(lambda l, ctx: None)
            b = bridge.SwitcherBridge(cb, ports)
            await b.start()
            if rnd.random() < 0.7:
                # a stopped bridge can be started again, and must deliver again
                await b.stop()
                await asyncio.sleep(0.1)
                await b.start()
            want = {p: [] for p in ports}
            s = socket.socket(socket.AF_INET, socket.SOCK_DGRAM)
            sent = 0
            seen = []
            for _ in range(i["n"]):
                p = rnd.choice(ports)
                good = gen(rnd)
                m = good if rnd.random() < 0.5 else bad_datagram(rnd, good)
                kind, e = classify(m)
                if kind == "either":
                    m, (kind, e) = good, classify(good)
                if seen and rnd.random() < 0.3:
                    m = rnd.choice(seen)         # the same broadcast again (any port)
                    kind, e = classify(m)
                seen.append(m)
                if kind == "deliver":
                    want[p].append((e[1]["device_id"], e[1]["name"]))
                s.sendto(m, ("127.0.0.1", p))
                sent += 1
                if sent % 10 == 0:
                    await asyncio.sleep(0.01)
            await asyncio.sleep(0.2)
            await b.stop()
            n_after = len(log)
            s.sendto(gen(rnd), ("127.0.0.1", ports[0]))
            await asyncio.sleep(0.05)
            s.close()
            total = sum(len(v) for v in want.values())
            problems = []
            if len(log) != total:
                problems.append(f"{len(log)} deliveries for {total} valid broadcasts")
            if len(log) != n_after:
                problems.append("a callback was made after stop returned")
            # per-port order: the global log restricted to each port's expected list must be a subsequence in order
            for p in ports:
                it = iter(log)
                if not all(any(x == w for x in it) for w in want[p]):
                    problems.append(f"deliveries of port {p} are not in arrival order")
            return problems
        p = asyncio.run(go())
        return {"ok": not p, "evaluations": i["n"], "detail": p}
    raise ValueError(k)
