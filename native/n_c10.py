import os
import random
import time

import aioswitcher.schedule.tools as tools
from aioswitcher.api.messages import SwitcherGetSchedulesResponse
from aioswitcher.schedule import Days
from aioswitcher.schedule.parser import get_schedules
from contracts import spec
from .codec import dec, canon, exc_name
from .n_c13 import patched_clock


def expected(r):
    """list of reference records (first occurrence per slot id) or None when r is not a reply of whole, well-formed records"""
    if len(r) == 0:
        return []
    if len(r) < 49 or (len(r) - 49) % 16:
        return None
    k = (len(r) - 49) // 16
    if not spec.wf_schedules_reply(r, k):
        return None
    out, seen = [], set()
    for j in range(k):
        q = r[45 + 16 * j: 61 + 16 * j]
        rec = spec.record_spec(q, Days)
        if rec["schedule_id"] in seen:
            continue
        seen.add(rec["schedule_id"])
        out.append(rec)
    return out


def check(r):
    exp = expected(r)
    try:
        got = get_schedules(r)
    except Exception as e:
        return {"ok": exp is None, "outcome": exc_name(e), "expected": "schedules" if exp is not None else "unconstrained"}
    if exp is None:
        return {"ok": True, "skipped": "not whole well-formed records"}
    by_id = {s.schedule_id: s for s in got}
    ok = len(got) == len(exp) and len(by_id) == len(exp)
    for rec in exp:
        s = by_id.get(rec["schedule_id"])
        if s is None:
            ok = False
            break
        for f in ("recurring", "days", "start_time", "end_time", "duration"):
            if getattr(s, f) != rec[f]:
                ok = False
    out_repr = sorted((s.schedule_id, s.recurring, sorted(d.name for d in s.days), s.start_time, s.end_time, s.duration) for s in got)
    # a caller may edit what it was given: the next listing must still decode every record from its own bytes
    for s in got:
        if isinstance(s.days, set):
            s.days.symmetric_difference_update({Days.MONDAY, Days.SUNDAY})
    return {"ok": ok, "outcome": out_repr,
            "expected": sorted((x["schedule_id"], x["recurring"], sorted(d.name for d in x["days"]), x["start_time"], x["end_time"], x["duration"]) for x in exp)}


def gen(rnd, k=None, wide=False):
    if k is None:
        k = rnd.choice([0, 1, 2, 3, 8, rnd.randrange(0, 10)])
    body = bytearray()
    for j in range(k):
        q = bytearray(rnd.randrange(256) for _ in range(16))
        q[0] = rnd.choice([j % 256, rnd.randrange(8), rnd.randrange(256)])
        q[2] = rnd.choice([0, 2, 254, rnd.randrange(2, 255)])
        for off in (4, 8):
            if wide:
                # the whole 32-bit range, top bit set included (dates after January 2038)
                stamp = rnd.choice([0, 0x7FFFFFFF, 0x80000000, 0xFFFFFFFF, rnd.randrange(2 ** 31, 2 ** 32), rnd.randrange(2 ** 32)])
            else:
                stamp = rnd.choice([0, 1700000000, rnd.randrange(2 ** 31)])
            q[off:off + 4] = stamp.to_bytes(4, "little")
        body += q
    return bytes(rnd.randrange(256) for _ in range(45)) + bytes(body) + bytes(rnd.randrange(256) for _ in range(4))


def run_case(c):
    k, i = c["kind"], c["inputs"]
    if k == "check":
        return check(dec(i["r"]))
    if k == "canary":
        got = list(get_schedules(dec(i["r"])))
        return {"ok": len(got) == 1 and got[0].recurring is False}
    if k == "sweep":
        rnd = random.Random(i["seed"])
        for n in range(i["n"]):
            r = gen(rnd) if n else b""
            res = check(r)
            if not res["ok"]:
                res.update(evaluations=n + 1, case={"prop": "C10", "kind": "check", "inputs": {"r": canon(r)}})
                return res
        # listings longer than one 1024-byte read holds (the bare function; the any-count step lemma of the proof covers these):
        # own random stream, so that the draws above do not move
        rnd2 = random.Random(i["seed"] * 7919 + 10)
        longs = [60, 61, 62, 63, 64, 65, 66, 100, 128, 255, 256, 257, 300] + [rnd2.randrange(62, 400) for _ in range(max(3, i["n"] // 100))]
        longs = [1, 2, 3, 5, 8] * 4 + longs
        for n, k2 in enumerate(longs):
            r = gen(rnd2, k2, wide=True)
            res = check(r)
            if not res["ok"]:
                res.update(evaluations=i["n"] + n + 1, case={"prop": "C10", "kind": "check", "inputs": {"r": canon(r)}})
                return res
        return {"ok": True, "evaluations": i["n"] + len(longs)}
    if k == "zones_same_reply":
        # the SAME listing decoded again after the host zone changed (TZ + tzset) inside one process: each decoding is in the zone
        # that is current at that moment (a decoding remembered from the earlier zone is an hour or more off)
        from . import n_c11
        rnd = random.Random(i["seed"])
        replies = [gen(rnd) for _ in range(6)]
        saved = os.environ.get("TZ")
        n = 0
        try:
            for zone in ("UTC", "Asia/Jerusalem", "America/New_York", "UTC", "Australia/Lord_Howe"):
                n_c11.set_zone(zone)
                for r in replies:
                    res = check(r)
                    n += 1
                    if not res["ok"]:
                        res.update(evaluations=n, detail=f"listing decoded again after the zone changed to {zone}", case={"prop": "C10", "kind": "check", "inputs": {"r": canon(r)}})
                        return res
        finally:
            if saved is None:
                os.environ.pop("TZ", None)
            else:
                os.environ["TZ"] = saved
            time.tzset()
        return {"ok": True, "evaluations": n}
    if k == "create_readback":
        # the record create_schedule emits, listed back, parses to the same start / end / days; with dst_days the clock is
        # pinned to the days around the DST transitions of two zones (a time that does not exist that day is skipped)
        from . import n_api
        from . import n_c11
        rnd = random.Random(i["seed"])
        members = list(Days)
        settings = [(None, None)]
        if i.get("dst_days"):
            settings = []
            for zone, days_ in (("America/New_York", [(2026, 3, 8), (2026, 11, 1), (2026, 3, 7)]), ("Australia/Lord_Howe", [(2026, 10, 4), (2026, 4, 5)])):
                for d in days_:
                    settings.append((zone, d))
        saved = os.environ.get("TZ")
        n = 0
        try:
            for zone, day in settings:
                if zone:
                    n_c11.set_zone(zone)
                    noon = int(time.mktime(day + (12, 0, 0, 0, 0, -1)))
                    cm = n_c11.fixed_today(noon)
                    cm.__enter__()
                try:
                    for _ in range(max(1, i["n"] // len(settings))):
                        days = set(rnd.sample(members, rnd.randrange(0, 8)))
                        hm = [(rnd.randrange(24), rnd.randrange(60)) for _ in range(2)]
                        if zone and not all(n_c11.exists_today(h, m) for h, m in hm):
                            continue
                        s, e = (f"{h:02d}:{m:02d}" for h, m in hm)
                        inp = {"dev_id": canon(bytes(3)), "dev_key": canon(b"\x00"), "R1": canon(bytes(44)), "R2": canon(b"x"), "now": 1700000000,
                               "start": s, "end": e, "days": canon(days)}
                        r = n_api.run_operation("create_schedule", 1, inp)
                        w = r["writes"][1]
                        rec = bytes([rnd.randrange(8), 1, w[85], 1]) + w[87:95] + bytes(4)
                        got = list(get_schedules(bytes(45) + rec + bytes(4)))
                        n += 1
                        ok = len(got) == 1 and got[0].days == days and got[0].start_time == s and got[0].end_time == e
                        if not ok:
                            return {"ok": False, "evaluations": n, "detail": f"zone {zone} date {day}: create({s},{e},{sorted(d.name for d in days)}) read back as "
                                    + (f"{got[0].start_time},{got[0].end_time},{sorted(d.name for d in got[0].days)}" if got else "nothing")}
                finally:
                    if zone:
                        cm.__exit__(None, None, None)
        finally:
            if saved is None:
                os.environ.pop("TZ", None)
            else:
                os.environ["TZ"] = saved
            time.tzset()
        return {"ok": True, "evaluations": n}
    if k == "shipped":
        base = os.path.join(os.environ.get("PYVC_REPO", "/repo"), "tests", "testresources")
        n = 0
        for fn in ("dummy_responses/get_schedules_response.txt", "test_schedule_parser/test_get_schedules_with_a_two_schedules_packet.txt"):
            p = os.path.join(base, fn)
            if not os.path.exists(p):
                continue
            r = bytes.fromhex(open(p).read().strip())
            res = check(r)
            n += 1
            if not res["ok"]:
                res.update(evaluations=n, detail="shipped capture " + fn)
                return res
        return {"ok": True, "evaluations": n}
    raise ValueError(k)
