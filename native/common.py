"""shared native helpers: run the real function and the specification on the same inputs and compare outcomes"""
from contracts import spec
from .codec import canon, exc_name, dec

SUBCLASS = {
    "ValueError": {"ValueError", "binascii.Error", "UnicodeDecodeError", "UnicodeEncodeError", "UnicodeError", "JSONDecodeError"},
    "LookupError": {"LookupError", "KeyError", "IndexError"},
    "OSError": {"OSError", "ConnectionError", "ConnectionRefusedError", "ConnectionResetError"},
    "RuntimeError": {"RuntimeError", "NotImplementedError"},
    "Exception": None,
}


def exc_matches(cls, target):
    if cls == target:
        return True
    s = SUBCLASS.get(target, ())
    if s is None:
        return True
    return cls in s


def real_outcome(thunk, conv=canon):
    try:
        return {"k": "ret", "v": conv(thunk())}
    except Exception as e:
        return {"k": "exc", "cls": exc_name(e)}


def spec_outcome(thunk, conv=canon):
    try:
        return {"k": "ret", "v": conv(thunk())}
    except spec.Reject as r:
        return {"k": "exc", "classes": list(r.args) or ["Exception"]}


def agree(real, sp, eq=None):
    if sp["k"] == "ret":
        if real["k"] != "ret":
            return False
        return (eq or (lambda a, b: a == b))(real["v"], sp["v"])
    if real["k"] != "exc":
        return False
    return any(exc_matches(real["cls"], c) for c in sp["classes"])


def compare(realthunk, specthunk, conv=canon, eq=None):
    real = real_outcome(realthunk, conv)
    sp = spec_outcome(specthunk, conv)
    return {"ok": agree(real, sp, eq), "outcome": real, "expected": sp}
