"""tagged JSON <-> real Python values (the counterpart of pyvc.engine.concretise)"""
import datetime
import enum
from fractions import Fraction


def enum_class(name):
    import aioswitcher.device as d
    import aioswitcher.schedule as s
    import aioswitcher.api as a
    for m in (d, s, a):
        if hasattr(m, name):
            return getattr(m, name)
    raise KeyError(name)


def dec(v):
    if isinstance(v, dict) and "t" in v:
        t = v["t"]
        if t == "bytes":
            return bytes.fromhex(v["hex"])
        if t == "str":
            return v["v"]
        if t == "enum":
            return enum_class(v["cls"])[v["name"]]
        if t == "tuple":
            return tuple(dec(x) for x in v["v"])
        if t == "list":
            return [dec(x) for x in v["v"]]
        if t == "set":
            return set(dec(x) for x in v["v"])
        if t == "dict":
            return {dec(k): dec(x) for k, x in v["v"]}
        if t == "frac":
            return Fraction(v["n"], v["d"])
        if t == "float":
            return float(v["v"])
        if t == "timedelta":
            return datetime.timedelta(seconds=dec(v["s"]))
        raise ValueError("cannot decode " + t)
    return v


def canon(v):
    """canonical JSON form of a native value (the symbolic side produces the same shape)"""
    if v is None or isinstance(v, (bool, int, str)):
        return v
    if isinstance(v, float):
        return {"t": "float", "v": v}
    if isinstance(v, bytes):
        return {"t": "bytes", "hex": v.hex()}
    if isinstance(v, enum.Enum):
        return {"t": "enum", "cls": type(v).__name__, "name": v.name}
    if isinstance(v, tuple):
        return {"t": "tuple", "v": [canon(x) for x in v]}
    if isinstance(v, list):
        return {"t": "list", "v": [canon(x) for x in v]}
    if isinstance(v, (set, frozenset)):
        return {"t": "set", "v": sorted((canon(x) for x in v), key=repr)}
    if isinstance(v, dict):
        return {"t": "dict", "v": [[canon(k), canon(x)] for k, x in v.items()]}
    if isinstance(v, BaseException):
        return {"t": "exc", "cls": exc_name(v)}
    return {"t": "opaque", "repr": repr(v)[:80]}


def exc_name(e):
    n = type(e).__name__
    mod = type(e).__module__
    if mod == "binascii" and n == "Error":
        return "binascii.Error"
    if mod in ("struct", "_struct") and n == "error":
        return "struct.error"
    return n


def outcome(thunk):
    try:
        return {"k": "ret", "v": canon(thunk())}
    except Exception as e:
        return {"k": "exc", "cls": exc_name(e)}
