"""native side of C18: histories on a real loopback TCP fake device (E5/E6 exercised with the real event loop)"""
import asyncio
import random
import socket

from aioswitcher.api import Command, SwitcherType1Api, SwitcherType2Api

ALPHABET = ["connect_ok", "connect_refused", "op_ok", "op_raise", "disconnect", "enter", "leave", "leave_exc", "leave_oserror", "leave_timeout"]


class FakeDevice:
    def __init__(self):
        self.open = 0
        self.eof = 0
        self.total = 0
        self.mode = "ok"
        self.writers = []
        self.flood = False      # the device sends more than the client ever reads (status chatter)
        self.resets = 0         # times the device's read ended in a connection reset instead of end-of-stream

    async def handle(self, reader, writer):
        self.open += 1
        self.total += 1
        self.writers.append(writer)
        try:
            while True:
                try:
                    data = await reader.read(1024)
                except ConnectionResetError:
                    self.resets += 1
                    break
                if not data:
                    self.eof += 1
                    break
                if self.mode == "ok":
                    try:
                        writer.write(bytes(44) + (bytes(3072) if self.flood else b""))
                        await writer.drain()
                    except (RuntimeError, OSError):      # this side was half-closed / reset by an earlier faulty step
                        break
                elif self.mode == "reset":
                    # the device resets the connection (RST): the client's transport records the error
                    writer.transport.abort()
                    break
                elif self.mode == "half_close":
                    # the device finishes its side first but keeps reading: it must still see the client's end-of-stream
                    writer.write_eof()
                else:
                    writer.close()
                    break
        finally:
            self.open -= 1
            writer.close()


def free_port():
    s = socket.socket()
    s.bind(("127.0.0.1", 0))
    p = s.getsockname()[1]
    s.close()
    return p


async def run_history(kind, seq, flood=False):
    dev = FakeDevice()
    dev.flood = flood
    server = await asyncio.start_server(dev.handle, "127.0.0.1", 0)
    port = server.sockets[0].getsockname()[1]
    dead = free_port()
    cls = SwitcherType1Api if kind == 1 else SwitcherType2Api
    api = cls("127.0.0.1", "ab1234", "00")
    model = False
    flag_unknown = False
    problems = []
    try:
        for n, a in enumerate(seq):
            if a == "connect_refused" and model:
                # refused re-connect on a live session: the flag afterwards is not claimed; the next disconnect must still close the socket
                api._port = dead
                try:
                    await api.connect()
                    problems.append(f"step {n}: refused re-connect did not raise")
                except OSError:
                    pass
                api._port = port
                flag_unknown = True
                continue
            if a in ("connect_ok", "connect_refused", "enter"):
                if model:
                    break
                api._port = dead if a == "connect_refused" else port
                try:
                    if a == "enter":
                        await api.__aenter__()
                    else:
                        await api.connect()
                    ok = True
                except OSError:
                    ok = False
                if ok != (a != "connect_refused"):
                    problems.append(f"step {n} {a}: connect outcome {ok}")
                model = ok
            elif a in ("op_ok", "op_raise"):
                if not model:
                    continue
                dev.mode = "ok" if a == "op_ok" else ("drop", "half_close", "reset")[n % 3]
                try:
                    if a == "op_ok":
                        await (api.control_device(Command.ON) if kind == 1 else api.stop())
                    else:
                        await (api.get_state() if kind == 1 else api.get_shutter_state())
                    raised = False
                except Exception:
                    raised = True
                if a == "op_raise" and not raised:
                    problems.append(f"step {n}: faulty operation did not raise")
                if a == "op_raise":
                    # the device dropped the connection: the statement's alphabet keeps 'connected' until disconnect
                    pass
            elif a == "disconnect":
                try:
                    await api.disconnect()
                except Exception as e:   # noqa: BLE001
                    problems.append(f"step {n} disconnect raised {type(e).__name__}")
                model = False
            else:
                trip = {"leave": (None, None, None), "leave_exc": (ValueError, ValueError("body"), None),
                        "leave_oserror": (ConnectionRefusedError, ConnectionRefusedError("other client"), None),
                        "leave_timeout": (asyncio.TimeoutError, asyncio.TimeoutError(), None)}[a]
                try:
                    await api.__aexit__(*trip)
                except Exception as e:   # noqa: BLE001
                    problems.append(f"step {n} {a}: leaving the context raised {type(e).__name__}")
                model = False
            if a in ("disconnect", "leave", "leave_exc", "leave_oserror", "leave_timeout"):
                flag_unknown = False
            await asyncio.sleep(0.01)
            if not flag_unknown and api.connected != model:
                problems.append(f"step {n} {a}: connected={api.connected}, expected {model}")
            w = getattr(api, "_writer", None)
            if not model and w is not None and not w.transport.is_closing():
                problems.append(f"step {n} {a}: the client's socket is still open after disconnect")
            if not model and dev.resets:
                problems.append(f"step {n} {a}: the device saw a connection reset instead of end-of-stream")
                dev.resets = 0
            if not model and dev.open != 0:
                await asyncio.sleep(0.1)
                if dev.open != 0:
                    problems.append(f"step {n} {a}: device still has {dev.open} open connection(s) after disconnect")
    finally:
        try:
            await api.disconnect()
        except Exception:
            pass
        server.close()
        for w in dev.writers:
            try:
                w.transport.abort()
            except Exception:
                pass
        try:
            await asyncio.wait_for(server.wait_closed(), 2)
        except Exception:
            pass
    return problems


def run_case(c):
    k, i = c["kind"], c["inputs"]
    if k == "canary":
        async def go():
            dev = FakeDevice()
            server = await asyncio.start_server(dev.handle, "127.0.0.1", 0)
            api = SwitcherType1Api("127.0.0.1", "ab1234", "00")
            api._port = server.sockets[0].getsockname()[1]
            await api.connect()
            c = api.connected
            await api.disconnect()
            server.close()
            await server.wait_closed()
            return c
        return {"ok": asyncio.run(go()) is False}
    if k == "history":
        p = asyncio.run(run_history(i["api"], i["seq"]))
        return {"ok": not p, "detail": p}
    if k == "loopback":
        rnd = random.Random(i["seed"])
        fixed = [["connect_ok", "op_ok", "disconnect", "connect_ok", "disconnect"], ["disconnect", "disconnect"],
                 ["connect_refused", "connect_ok", "leave_exc", "enter", "op_raise", "leave"], ["enter", "leave_exc", "connect_refused"],
                 ["connect_ok", "leave_oserror"], ["enter", "leave_timeout"], ["connect_ok", "connect_refused", "disconnect"],
                 ["connect_ok", "op_ok", "connect_refused", "leave"],
                 # the device resets the connection during an operation (op_raise at step 2 = reset mode), the client tries again, then leaves
                 # (two further writes on the reset connection are what makes the transport record a BrokenPipeError)
                 ["connect_ok", "op_ok", "op_raise", "op_raise", "op_raise", "disconnect", "disconnect", "connect_ok", "disconnect"],
                 ["enter", "op_ok", "op_raise", "op_raise", "op_raise", "leave_exc"]]
        for n in range(i["n"]):
            seq = fixed[n] if n < len(fixed) else [rnd.choice(ALPHABET) for _ in range(rnd.randrange(1, 8))]
            kind = 1 + n % 2
            # every third history with the library's loggers at DEBUG (code that only runs when debugging must not change the outcome)
            import logging
            lg = logging.getLogger("aioswitcher")
            old_level, old_handlers = lg.level, list(lg.handlers)
            if n % 3 == 1:
                lg.setLevel(logging.DEBUG)
                lg.addHandler(logging.NullHandler())
            try:
                p = asyncio.run(run_history(kind, seq))
            finally:
                lg.setLevel(old_level)
                lg.handlers[:] = old_handlers
            if p and n % 3 == 1:
                p = ["with the aioswitcher logger at DEBUG"] + p
            if p:
                return {"ok": False, "evaluations": n + 1, "detail": p, "case": {"prop": "C18", "kind": "history", "inputs": {"api": kind, "seq": seq}}}
        # fixed histories with the loggers at DEBUG: a second disconnect, a disconnect after a refused re-connect, after a device reset
        import logging
        lg = logging.getLogger("aioswitcher")
        old_level, old_handlers = lg.level, list(lg.handlers)
        lg.setLevel(logging.DEBUG)
        lg.addHandler(logging.NullHandler())
        try:
            for kind in (1, 2):
                for seq in (["connect_ok", "op_ok", "disconnect", "disconnect", "connect_ok", "disconnect"], ["connect_ok", "connect_refused", "disconnect", "disconnect"],
                            ["enter", "op_ok", "op_raise", "op_raise", "op_raise", "leave_exc", "disconnect"]):
                    p = asyncio.run(run_history(kind, seq))
                    if p:
                        return {"ok": False, "evaluations": i["n"] + 1, "detail": ["with the aioswitcher logger at DEBUG"] + p,
                                "case": {"prop": "C18", "kind": "history", "inputs": {"api": kind, "seq": seq}}}
        finally:
            lg.setLevel(old_level)
            lg.handlers[:] = old_handlers
        # a talkative device: it sends 3 KiB more than the client reads with every answer; leaving must still look like end-of-stream to it
        for kind in (1, 2):
            p = asyncio.run(run_history(kind, ["connect_ok", "op_ok", "op_ok", "op_ok", "disconnect", "enter", "op_ok", "op_ok", "leave"], flood=True))
            if p:
                return {"ok": False, "evaluations": i["n"] + kind, "detail": ["device sends 3 KiB of unread data with every answer"] + p}
        return {"ok": True, "evaluations": i["n"] + 2}
    raise ValueError(k)
