import os
import random

from aioswitcher.api.messages import SwitcherBaseResponse
from contracts import spec
from .codec import dec, canon, exc_name
from . import n_api

QUERIES = [("get_state", 1), ("get_shutter_state", 2), ("get_breeze_state", 2)]
TYPE2 = [("stop", 2), ("set_position", 2), ("get_shutter_state", 2), ("get_breeze_state", 2)]


def check(op, kind, i):
    r = n_api.run_operation(op, kind, i)
    out = n_api.summary(r)
    R1 = dec(i.get("R1", b""))
    ok = True
    if (op, kind) in QUERIES:
        ok = r["k"] == "ret" or isinstance(r["v"], RuntimeError)
        if r["k"] == "ret" and len(dec(i.get("R2", b""))) == 0:
            ok = False
    if len(R1) == 0 and ((op, kind) in QUERIES or (op, kind) in TYPE2):
        ok = ok and r["k"] == "exc" and isinstance(r["v"], RuntimeError) and len(r["writes"]) == 1
    return {"ok": ok, "outcome": out}


def run_case(c):
    k, i = c["kind"], c["inputs"]
    if k == "op":
        return {"ok": True, "outcome": {"k": "ret", "v": n_api.summary(n_api.run_operation(c["op"], c["api"], i))}}
    if k == "op_check":
        return check(c["op"], c["api"], i)
    if k == "canary":
        r = n_api.run_operation("get_state", 1, i)
        return {"ok": r["k"] == "ret"}
    if k == "sweep" and i.get("debug_logging"):
        # the same sweep with the library's loggers at DEBUG (code that only runs when debugging must not change the outcome)
        import logging
        lg = logging.getLogger("aioswitcher")
        old_level, old_handlers = lg.level, list(lg.handlers)
        lg.setLevel(logging.DEBUG)
        lg.addHandler(logging.NullHandler())
        try:
            r = run_case({"kind": "sweep", "inputs": {kk: vv for kk, vv in i.items() if kk != "debug_logging"}})
        finally:
            lg.setLevel(old_level)
            lg.handlers[:] = old_handlers
        if not r.get("ok"):
            r["detail"] = "with the aioswitcher logger at DEBUG: " + str(r.get("detail", ""))
        return r
    if k == "sweep":
        rnd = random.Random(i["seed"])
        base = os.path.join(os.environ.get("PYVC_REPO", "/repo"), "tests", "testresources", "dummy_responses")
        good = {}
        for fn, key in (("get_state_response.txt", "get_state"), ("get_shutter_state_response.txt", "get_shutter_state"), ("get_breeze_state.txt", "get_breeze_state")):
            p = os.path.join(base, fn)
            good[key] = bytes.fromhex(open(p).read().strip()) if os.path.exists(p) else bytes(120)
        for n in range(i["n"]):
            op, kind = (QUERIES + TYPE2)[n % 7]
            mode = rnd.randrange(5)
            if mode == 0:
                R2 = bytes(rnd.randrange(256) for _ in range(rnd.choice([rnd.randrange(0, 200), 1023, 1024, 1024])))
            elif mode == 1:
                g = good.get(op, bytes(120))
                R2 = g[:rnd.randrange(0, len(g) + 1)]
            elif mode == 2:
                g = bytearray(good.get(op, bytes(120)))
                for _ in range(rnd.randrange(1, 6)):
                    g[rnd.randrange(len(g))] = rnd.randrange(256)
                R2 = bytes(g)
            elif mode == 3:
                R2 = good.get(op, bytes(120)) + bytes(rnd.randrange(256) for _ in range(rnd.randrange(0, 50)))
            else:
                R2 = b""
            R1 = rnd.choice([b"", bytes(5), bytes(rnd.randrange(256) for _ in range(44)), bytes(rnd.randrange(256) for _ in range(rnd.randrange(1, 4))),
                             bytes(rnd.randrange(256) for _ in range(1024))])
            inp = {"dev_id": canon(bytes(3)), "dev_key": canon(b"\x00"), "R1": canon(R1), "R2": canon(R2), "now": 1700000000, "position": 50}
            r = check(op, kind, inp)
            if not r["ok"]:
                r.update(evaluations=n + 1, case={"prop": "C09", "kind": "op_check", "op": op, "api": kind, "inputs": inp})
                return r
        for v in (None, b"", b"\x00", b"abc"):
            if SwitcherBaseResponse(v).successful != (v is not None and len(v) > 0):
                return {"ok": False, "detail": "SwitcherBaseResponse.successful"}
        return {"ok": True, "evaluations": i["n"] + 4}
    if k == "op_sequences":
        # several operations on ONE api object inside ONE event loop (as an application does): every operation is judged exactly
        # like a first operation, whatever happened before - a failed one included - and none may hang
        import asyncio
        rnd = random.Random(i["seed"])
        n = 0
        for j in range(i["n"]):
            plan = []
            for step in range(rnd.randrange(2, 6)):
                op, kind = QUERIES[rnd.randrange(3)] if rnd.random() < 0.7 else TYPE2[rnd.randrange(2)]
                R1 = rnd.choice([b"", bytes(rnd.randrange(256) for _ in range(44)), bytes(rnd.randrange(256) for _ in range(44))])
                R2 = rnd.choice([b"", bytes(5), bytes(rnd.randrange(256) for _ in range(rnd.choice([60, 101, 120])))])
                plan.append((op, kind, R1, R2))
            for api_kind in (1, 2):
                steps = [p_ for p_ in plan if p_[1] == api_kind]
                if len(steps) < 2:
                    continue
                a = n_api.make(api_kind, bytes(3), b"\x00", [])

                async def go():
                    out = []
                    for (op, kind, R1, R2) in steps:
                        a._reader = n_api.FakeReader([R1, R2, b"ok", b"ok"])
                        a._writer = n_api.FakeWriter()
                        args = [50] if op == "set_position" else []
                        try:
                            with n_api.patched_time(1700000000):
                                r = await asyncio.wait_for(getattr(a, op)(*args), 2)
                            out.append(("ret", r, len(a._writer.log)))
                        except asyncio.TimeoutError:
                            out.append(("hang", None, len(a._writer.log)))
                        except Exception as e:   # noqa: BLE001
                            out.append(("exc", e, len(a._writer.log)))
                    return out
                res = asyncio.run(go())
                for idx, ((op, kind, R1, R2), (kk, v, nw)) in enumerate(zip(steps, res)):
                    n += 1
                    bad = None
                    if kk == "hang":
                        bad = "the operation did not complete"
                    elif (op, kind) in QUERIES and not (kk == "ret" or isinstance(v, RuntimeError)):
                        bad = f"escaping {type(v).__name__}"
                    elif (op, kind) in QUERIES and kk == "ret" and len(R2) == 0:
                        bad = "returned a parsed response for an empty reply"
                    elif len(R1) == 0 and not (kk == "exc" and isinstance(v, RuntimeError) and nw == 1):
                        bad = f"empty login reply: {kk} {type(v).__name__ if kk == 'exc' else ''} after {nw} frame(s)"
                    if bad:
                        return {"ok": False, "evaluations": n, "detail": f"operation #{idx + 1} ({op}) of a sequence on one api object: {bad}",
                                "outcome": [dict(op=o, login_reply_len=len(r1), reply_len=len(r2)) for (o, _, r1, r2) in steps[:idx + 1]]}
        return {"ok": True, "evaluations": n}
    if k == "breeze_steps":
        # the four-step thermostat exchange with one step's reply empty: never reported as success
        from aioswitcher.api.remotes import SwitcherBreezeRemote
        from aioswitcher.device import DeviceState, ThermostatFanLevel, ThermostatMode, ThermostatSwing
        from .n_c15 import gen_irset
        from .n_c16 import state_reply
        rnd = random.Random(i["seed"])
        n = 0
        for j in range(i["n"]):
            irs = gen_irset(rnd, density=1.0, sep=(j % 2 == 0))
            remote = SwitcherBreezeRemote(irs)
            pick = lambda xs: rnd.choice([None] + list(xs))
            state, mode, fan, swing = pick(DeviceState), pick(ThermostatMode), pick(ThermostatFanLevel), pick(ThermostatSwing)
            if mode is not None and mode not in remote.supported_modes:
                mode = None
            t = rnd.choice([0, 24])
            update = rnd.random() < 0.25
            for empty_step in range(4):
                replies = [bytes(rnd.randrange(256) for _ in range(44)), state_reply(rnd), b"\x01" * 20, b"\x02" * 20]
                replies[empty_step] = b""
                a = n_api.make(2, bytes(3), b"\x00", list(replies))
                kk, v = n_api.call(a, "control_breeze_device", [remote, state, mode, t, fan, swing, update], 1700000000)
                n += 1
                consumed = a._reader.n if isinstance(a._reader.n, int) else len(a._reader.n)
                if kk == "ret" and v.successful and consumed > empty_step:
                    return {"ok": False, "evaluations": n, "detail": "success reported although the reply of step %d was empty" % (empty_step + 1),
                            "outcome": dict(irset=irs["IRSetID"], state=state and state.name, mode=mode and mode.name, fan=fan and fan.name,
                                            swing=swing and swing.name, target=t, update_state=update, empty_step=empty_step + 1, replies_read=consumed)}
        return {"ok": True, "evaluations": n}
    if k == "prefixes":
        base = os.path.join(os.environ.get("PYVC_REPO", "/repo"), "tests", "testresources", "dummy_responses")
        n = 0
        for fn, op, kind in (("get_state_response.txt", "get_state", 1), ("get_shutter_state_response.txt", "get_shutter_state", 2),
                             ("get_breeze_state.txt", "get_breeze_state", 2)):
            p = os.path.join(base, fn)
            if not os.path.exists(p):
                continue
            g = bytes.fromhex(open(p).read().strip())
            for ln in range(len(g) + 1):
                inp = {"dev_id": canon(bytes(3)), "dev_key": canon(b"\x00"), "R1": canon(bytes(44)), "R2": canon(g[:ln]), "now": 1700000000}
                r = check(op, kind, inp)
                n += 1
                if not r["ok"]:
                    r.update(evaluations=n, case={"prop": "C09", "kind": "op_check", "op": op, "api": kind, "inputs": inp})
                    return r
        return {"ok": True, "evaluations": n}
    raise ValueError(k)
