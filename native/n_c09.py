import os
import random

from aioswitcher.api.messages import SwitcherBaseResponse
from contracts import spec
from .codec import dec, canon, exc_name
from . import n_api

QUERIES = [("get_state", 1), ("get_shutter_state", 2), ("get_breeze_state", 2)]
TYPE2 = [("stop", 2), ("set_position", 2), ("get_shutter_state", 2), ("get_breeze_state", 2)]


def check(op, kind, i):
    r = n_api.run_operation(op, kind, i)
    out = n_api.summary(r)
    R1 = dec(i.get("R1", b""))
    ok = True
    if (op, kind) in QUERIES:
        ok = r["k"] == "ret" or isinstance(r["v"], RuntimeError)
        if r["k"] == "ret" and len(dec(i.get("R2", b""))) == 0:
            ok = False
    if len(R1) == 0 and ((op, kind) in QUERIES or (op, kind) in TYPE2):
        ok = ok and r["k"] == "exc" and isinstance(r["v"], RuntimeError) and len(r["writes"]) == 1
    return {"ok": ok, "outcome": out}


def run_case(c):
    k, i = c["kind"], c["inputs"]
    if k == "op":
        return {"ok": True, "outcome": {"k": "ret", "v": n_api.summary(n_api.run_operation(c["op"], c["api"], i))}}
    if k == "op_check":
        return check(c["op"], c["api"], i)
    if k == "canary":
        r = n_api.run_operation("get_state", 1, i)
        return {"ok": r["k"] == "ret"}
    if k == "sweep":
        rnd = random.Random(i["seed"])
        base = os.path.join(os.environ.get("PYVC_REPO", "/repo"), "tests", "testresources", "dummy_responses")
        good = {}
        for fn, key in (("get_state_response.txt", "get_state"), ("get_shutter_state_response.txt", "get_shutter_state"), ("get_breeze_state.txt", "get_breeze_state")):
            p = os.path.join(base, fn)
            good[key] = bytes.fromhex(open(p).read().strip()) if os.path.exists(p) else bytes(120)
        for n in range(i["n"]):
            op, kind = (QUERIES + TYPE2)[n % 7]
            mode = rnd.randrange(5)
            if mode == 0:
                R2 = bytes(rnd.randrange(256) for _ in range(rnd.randrange(0, 200)))
            elif mode == 1:
                g = good.get(op, bytes(120))
                R2 = g[:rnd.randrange(0, len(g) + 1)]
            elif mode == 2:
                g = bytearray(good.get(op, bytes(120)))
                for _ in range(rnd.randrange(1, 6)):
                    g[rnd.randrange(len(g))] = rnd.randrange(256)
                R2 = bytes(g)
            elif mode == 3:
                R2 = good.get(op, bytes(120)) + bytes(rnd.randrange(256) for _ in range(rnd.randrange(0, 50)))
            else:
                R2 = b""
            R1 = rnd.choice([b"", bytes(5), bytes(rnd.randrange(256) for _ in range(44))])
            inp = {"dev_id": canon(bytes(3)), "dev_key": canon(b"\x00"), "R1": canon(R1), "R2": canon(R2), "now": 1700000000, "position": 50}
            r = check(op, kind, inp)
            if not r["ok"]:
                r.update(evaluations=n + 1, case={"prop": "C09", "kind": "op_check", "op": op, "api": kind, "inputs": inp})
                return r
        for v in (None, b"", b"\x00", b"abc"):
            if SwitcherBaseResponse(v).successful != (v is not None and len(v) > 0):
                return {"ok": False, "detail": "SwitcherBaseResponse.successful"}
        return {"ok": True, "evaluations": i["n"] + 4}
    if k == "breeze_steps":
        # the four-step thermostat exchange with one step's reply empty: never reported as success
        from aioswitcher.api.remotes import SwitcherBreezeRemote
        from aioswitcher.device import DeviceState, ThermostatFanLevel, ThermostatMode, ThermostatSwing
        from .n_c15 import gen_irset
        from .n_c16 import state_reply
        rnd = random.Random(i["seed"])
        n = 0
        for j in range(i["n"]):
            irs = gen_irset(rnd, density=1.0, sep=(j % 2 == 0))
            remote = SwitcherBreezeRemote(irs)
            pick = lambda xs: rnd.choice([None] + list(xs))
            state, mode, fan, swing = pick(DeviceState), pick(ThermostatMode), pick(ThermostatFanLevel), pick(ThermostatSwing)
            if mode is not None and mode not in remote.supported_modes:
                mode = None
            t = rnd.choice([0, 24])
            update = rnd.random() < 0.25
            for empty_step in range(4):
                replies = [bytes(rnd.randrange(256) for _ in range(44)), state_reply(rnd), b"\x01" * 20, b"\x02" * 20]
                replies[empty_step] = b""
                a = n_api.make(2, bytes(3), b"\x00", list(replies))
                kk, v = n_api.call(a, "control_breeze_device", [remote, state, mode, t, fan, swing, update], 1700000000)
                n += 1
                consumed = a._reader.n if isinstance(a._reader.n, int) else len(a._reader.n)
                if kk == "ret" and v.successful and consumed > empty_step:
                    return {"ok": False, "evaluations": n, "detail": "success reported although the reply of step %d was empty" % (empty_step + 1),
                            "outcome": dict(irset=irs["IRSetID"], state=state and state.name, mode=mode and mode.name, fan=fan and fan.name,
                                            swing=swing and swing.name, target=t, update_state=update, empty_step=empty_step + 1, replies_read=consumed)}
        return {"ok": True, "evaluations": n}
    if k == "prefixes":
        base = os.path.join(os.environ.get("PYVC_REPO", "/repo"), "tests", "testresources", "dummy_responses")
        n = 0
        for fn, op, kind in (("get_state_response.txt", "get_state", 1), ("get_shutter_state_response.txt", "get_shutter_state", 2),
                             ("get_breeze_state.txt", "get_breeze_state", 2)):
            p = os.path.join(base, fn)
            if not os.path.exists(p):
                continue
            g = bytes.fromhex(open(p).read().strip())
            for ln in range(len(g) + 1):
                inp = {"dev_id": canon(bytes(3)), "dev_key": canon(b"\x00"), "R1": canon(bytes(44)), "R2": canon(g[:ln]), "now": 1700000000}
                r = check(op, kind, inp)
                n += 1
                if not r["ok"]:
                    r.update(evaluations=n, case={"prop": "C09", "kind": "op_check", "op": op, "api": kind, "inputs": inp})
                    return r
        return {"ok": True, "evaluations": n}
    raise ValueError(k)
