"""native harness for API operations: the real method on an in-memory scripted stream pair (the objects the
environment contract E6 describes), with time.time patched to the model's clock"""
import asyncio
import datetime
from fractions import Fraction

import aioswitcher.api as api
import aioswitcher.device.tools as dtools
from aioswitcher.api import Command, SwitcherType1Api, SwitcherType2Api
from aioswitcher.schedule import Days
from contracts import spec
from .codec import dec, canon, exc_name


class FakeReader:
    def __init__(self, replies):
        self.replies = list(replies)
        self.n = 0

    async def read(self, n):
        if self.n >= len(self.replies):
            raise AssertionError("more reads than scripted replies")
        r = self.replies[self.n]
        self.n += 1
        return r


class FakeWriter:
    def __init__(self):
        self.log = []
        self.closed = False

    def write(self, b):
        self.log.append(bytes(b))

    def close(self):
        self.closed = True

    async def wait_closed(self):
        return None


def make(kind, dev_id, dev_key, replies):
    cls = SwitcherType1Api if kind == 1 else SwitcherType2Api
    a = cls("192.0.2.1", dev_id.hex(), dev_key.hex())
    a._reader = FakeReader(replies)
    a._writer = FakeWriter()
    a._connected = True
    return a


class patched_time:
    def __init__(self, now):
        self.now = float(now) if now is not None else None

    def __enter__(self):
        self.saved = dtools.time
        if self.now is not None:
            now = self.now

            class T:
                @staticmethod
                def time():
                    return now
            dtools.time = T

    def __exit__(self, *a):
        dtools.time = self.saved


def call(a, method, args, now):
    with patched_time(now):
        try:
            r = asyncio.run(getattr(a, method)(*args))
            return ("ret", r)
        except Exception as e:
            return ("exc", e)


def op_args(op, i):
    if op == "control_device":
        return [dec(i["command"]), dec(i["minutes"])]
    if op == "set_auto_shutdown":
        return [dec(i["full_time"])]
    if op == "set_device_name":
        return [dec(i["name"])]
    if op == "delete_schedule":
        return [dec(i["schedule_id"])]
    if op == "create_schedule":
        return [dec(i["start"]), dec(i["end"]), dec(i["days"])]
    if op == "set_position":
        return [dec(i["position"])]
    return []


def run_operation(op, kind, i, extra_replies=()):
    replies = [dec(i.get("R1", b"")), dec(i.get("R2", b""))] + [dec(x) for x in extra_replies]
    k_ = 3
    while f"R{k_}" in i:          # replies to reads beyond the usual exchange (code that reads more often than expected)
        replies.append(dec(i[f"R{k_}"]))
        k_ += 1
    a = make(kind, dec(i["dev_id"]), dec(i["dev_key"]), replies)
    now = dec(i.get("now"))
    k, v = call(a, op, op_args(op, i), now)
    return {"k": k, "v": v, "writes": a._writer.log, "reads": a._reader.n, "api": a}


def ts_of(now):
    return spec.timestamp_of(float(now))


def accepted(op, i):
    if op == "control_device":
        return 60 * dec(i["minutes"]) < 2 ** 32
    if op == "set_auto_shutdown":
        td = dec(i["full_time"])
        return 3600 <= td.total_seconds() < 86400
    if op == "set_device_name":
        n = dec(i["name"])
        return len(n) >= 2 and len(n.encode()) <= 32
    if op == "create_schedule":
        days = dec(i["days"])
        days_l = list(days)
        return spec.valid_hhmm(dec(i["start"])) and spec.valid_hhmm(dec(i["end"])) and len(set(days_l)) == len(days_l)
    if op == "set_position":
        return 0 <= dec(i["position"]) <= 100
    return True


def expected_frames(op, kind, i, session, ts):
    idb, keyb = dec(i["dev_id"]), dec(i["dev_key"])
    # the login packet follows the operation's device family: stop() (implemented on the common base class) logs in the Runner way
    login = spec.login1_frame(ts, keyb) if (kind == 1 and op != "stop") else spec.login2_frame(ts, idb)
    if op == "control_device":
        f = spec.control_frame(session, ts, idb, dec(i["command"]) == Command.ON, dec(i["minutes"]))
    elif op == "set_auto_shutdown":
        f = spec.auto_shutdown_frame(session, ts, idb, int(dec(i["full_time"]).total_seconds()))
    elif op == "set_device_name":
        f = spec.name_frame(session, ts, idb, dec(i["name"]))
    elif op == "get_schedules":
        f = spec.get_schedules_frame(session, ts, idb)
    elif op == "delete_schedule":
        f = spec.delete_schedule_frame(session, ts, idb, int(dec(i["schedule_id"]), 16))
    elif op == "create_schedule":
        days = list(dec(i["days"]))
        mask = sum(spec.day_bit(d) for d in days)
        st, en = dec(i["start"]), dec(i["end"])
        f = spec.create_schedule_frame(session, ts, idb, mask, spec.today_epoch(spec.hh_of(st), spec.mm_of(st)),
                                       spec.today_epoch(spec.hh_of(en), spec.mm_of(en)))
    elif op == "get_state":
        f = spec.get_state1_frame(session, ts, idb)
    elif op == "stop":
        f = spec.stop_frame(session, ts, idb)
    elif op == "set_position":
        f = spec.set_position_frame(session, ts, idb, dec(i["position"]))
    elif op in ("get_shutter_state", "get_breeze_state"):
        f = spec.get_state2_frame(session, ts, idb)
    else:
        raise ValueError(op)
    return [login, f]


REJECTING = {"control_device", "set_auto_shutdown", "set_device_name", "create_schedule"}
QUERIES = {"get_state", "get_shutter_state", "get_breeze_state", "get_schedules"}


def check_c02(op, kind, i):
    r = run_operation(op, kind, i)
    R1 = dec(i["R1"])
    out = {"k": r["k"], "cls": exc_name(r["v"]) if r["k"] == "exc" else None, "writes": [w.hex() for w in r["writes"]]}
    if len(R1) < 12:
        return {"ok": True, "skipped": "login reply carries no session id", "outcome": out}
    if accepted(op, i):
        want = expected_frames(op, kind, i, R1[8:12], ts_of(dec(i["now"])))
        ok = r["writes"] == want and (r["k"] == "ret" or op in QUERIES)
        return {"ok": ok, "outcome": out, "expected": [w.hex() for w in want]}
    if op in REJECTING:
        return {"ok": r["k"] == "exc" and len(r["writes"]) <= 1, "outcome": out, "expected": "raises, no command frame"}
    return {"ok": True, "skipped": "outside the statement's domain", "outcome": out}


def summary(r):
    return {"k": r["k"], "cls": exc_name(r["v"]) if r["k"] == "exc" else None, "nwrites": len(r["writes"]), "reads": r["reads"],
            "lens": [len(w) for w in r["writes"]]}
