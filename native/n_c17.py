"""native side of C17: histories of a real bridge on loopback UDP with ephemeral ports (E1..E4 with the real event loop)"""
import asyncio
import random
import socket

from aioswitcher.bridge import SwitcherBridge


def free_udp_ports(n):
    socks, ports = [], []
    for _ in range(n):
        s = socket.socket(socket.AF_INET, socket.SOCK_DGRAM)
        s.bind(("0.0.0.0", 0))
        socks.append(s)
        ports.append(s.getsockname()[1])
    for s in socks:
        s.close()
    return ports


def bindable(port):
    s = socket.socket(socket.AF_INET, socket.SOCK_DGRAM)
    try:
        s.bind(("0.0.0.0", port))
        return True
    except OSError:
        return False
    finally:
        s.close()


def _valid_broadcast():
    from .n_c05 import gen
    return bytes(gen(random.Random(5)))


async def run_history(seq):
    ports = free_udp_ports(2)
    got = []
    b = SwitcherBridge(got.append, ports)
    listening = False
    problems = []
    # the endpoints the bridge creates are captured so that a datagram can be handed to its protocol at a chosen moment
    loop = asyncio.get_running_loop()
    endpoints = []
    orig_create = loop.create_datagram_endpoint

    async def capture(*a, **k):
        r = await orig_create(*a, **k)
        endpoints.append(r)
        return r
    loop.create_datagram_endpoint = capture
    good = _valid_broadcast()
    for n, a in enumerate(seq):
        blocker = None
        if listening and not a.startswith("start") and a != "enter":
            # a broadcast arrives right before the bridge is stopped: it is delivered before stop() returns or not at all
            for t, proto in endpoints:
                if not t.is_closing():
                    try:
                        proto.datagram_received(good, ("127.0.0.1", 9))
                    except Exception as e:   # noqa: BLE001
                        problems.append(f"step {n}: datagram_received raised {type(e).__name__}")
        if a.startswith("start") or a == "enter":
            if a in ("start_fail0", "start_fail1") and not listening:
                blocker = socket.socket(socket.AF_INET, socket.SOCK_DGRAM)
                blocker.bind(("0.0.0.0", ports[int(a[-1])]))
            try:
                if a == "enter":
                    await b.__aenter__()
                else:
                    await b.start()
                ok = True
            except OSError:
                ok = False
            if blocker is not None:
                blocker.close()
            expect_ok = (not listening) and a in ("start_ok", "enter")
            if ok != expect_ok:
                problems.append(f"step {n} {a}: start outcome {ok}, expected {expect_ok}")
            listening = ok and expect_ok
        else:
            if a == "stop":
                await b.stop()
            else:
                await b.__aexit__(*((None, None, None) if a == "leave" else (ValueError, ValueError("body"), None)))
            listening = False
        delivered = len(got)
        await asyncio.sleep(0)
        await asyncio.sleep(0.01)
        if not listening and len(got) != delivered:
            problems.append(f"step {n} {a}: {len(got) - delivered} callback(s) invoked after the bridge had stopped")
        if b.is_running != listening:
            problems.append(f"step {n} {a}: is_running={b.is_running}, expected {listening}")
        for p in ports:
            if bindable(p) == listening:
                problems.append(f"step {n} {a}: port {p} bindable={not listening} expected {listening and 'bound' or 'free'}")
    await b.stop()
    loop.create_datagram_endpoint = orig_create
    return problems


async def ephemeral():
    """port 0 (the system picks the port): stop - and the clean-up of a failed start - must still find and close that socket"""
    problems = []
    loop = asyncio.get_running_loop()
    endpoints = []
    orig_create = loop.create_datagram_endpoint

    async def capture(*a, **k):
        r = await orig_create(*a, **k)
        endpoints.append(r[0])
        return r
    loop.create_datagram_endpoint = capture
    try:
        fixed = free_udp_ports(1)[0]
        b = SwitcherBridge(lambda d: None, [0, fixed])
        for round_ in range(2):
            await b.start()
            await b.stop()
            await asyncio.sleep(0.01)
            still = [t for t in endpoints if not t.is_closing()]
            if still or b.is_running:
                problems.append(f"ports [0, {fixed}], round {round_ + 1}: {len(still)} socket(s) still open after stop()")
                break
        blocker = socket.socket(socket.AF_INET, socket.SOCK_DGRAM)
        blocker.bind(("0.0.0.0", fixed))
        del endpoints[:]
        try:
            await SwitcherBridge(lambda d: None, [0, fixed]).start()
            problems.append("start on an occupied port did not raise")
        except OSError:
            pass
        blocker.close()
        await asyncio.sleep(0.01)
        still = [t for t in endpoints if not t.is_closing()]
        if still:
            problems.append(f"failed start on ports [0, {fixed} (occupied)]: the socket bound for port 0 is left open")
        for t in endpoints:
            t.close()
    finally:
        loop.create_datagram_endpoint = orig_create
    return problems


ALPHA = ["start_ok", "start_fail0", "start_fail1", "stop", "enter", "leave", "leave_exc"]


def run_case(c):
    k, i = c["kind"], c["inputs"]
    if k == "canary":
        async def go():
            ports = free_udp_ports(2)
            b = SwitcherBridge(lambda d: None, ports)
            await b.start()
            r = b.is_running
            await b.stop()
            return r
        return {"ok": asyncio.run(go()) is False}
    if k == "history":
        p = asyncio.run(run_history(i["seq"]))
        return {"ok": not p, "detail": p}
    if k == "loopback":
        rnd = random.Random(i["seed"])
        fixed = [["start_fail1"], ["start_ok", "stop", "start_ok", "stop"], ["stop", "stop"], ["start_fail0", "start_ok", "leave_exc", "enter", "leave"],
                 ["start_ok", "start_ok"]]
        for n in range(i["n"]):
            seq = fixed[n] if n < len(fixed) else [rnd.choice(ALPHA) for _ in range(rnd.randrange(1, 7))]
            p = asyncio.run(run_history(seq))
            if p:
                return {"ok": False, "evaluations": n + 1, "detail": p, "case": {"prop": "C17", "kind": "history", "inputs": {"seq": seq}}}
        p = asyncio.run(ephemeral())
        if p:
            return {"ok": False, "evaluations": i["n"] + 1, "detail": p}
        return {"ok": True, "evaluations": i["n"] + 1}
    raise ValueError(k)
