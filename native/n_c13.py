import datetime
import itertools
import random

import aioswitcher.schedule.tools as tools
from aioswitcher.schedule import Days
from contracts import spec
from .codec import dec, canon
from .common import compare


class patched_clock:
    """replaces the module's datetime class by one whose now()/utcnow() return fixed instants"""
    def __init__(self, utc, offset_s):
        self.utc, self.off = utc, offset_s

    def __enter__(self):
        utc, local = self.utc, self.utc + datetime.timedelta(seconds=self.off)

        class FakeDT(datetime.datetime):
            @classmethod
            def utcnow(cls):
                return cls(utc.year, utc.month, utc.day, utc.hour, utc.minute, utc.second)

            @classmethod
            def now(cls, tz=None):
                assert tz is None
                return cls(local.year, local.month, local.day, local.hour, local.minute, local.second)
        self.saved = tools.datetime
        tools.datetime = FakeDT
        return local

    def __exit__(self, *a):
        tools.datetime = self.saved


def one(start, days, uday, usod, offset):
    utc = datetime.datetime(1970, 1, 1) + datetime.timedelta(days=uday, seconds=usod)
    with patched_clock(utc, offset) as local:
        cw, cm = local.weekday(), local.hour * 60 + local.minute
        return compare(lambda: tools.pretty_next_run(start, days), lambda: spec.next_run_spec(start, days, cw, cm))


def run_case(c):
    k, i = c["kind"], c["inputs"]
    if k in ("one", "canary"):
        start, days = dec(i["start"]), dec(i["days"])
        if k == "canary":
            utc = datetime.datetime(1970, 1, 1) + datetime.timedelta(days=i["uday"], seconds=i["usod"])
            with patched_clock(utc, i["offset"]):
                return {"ok": tools.pretty_next_run(start, days) == "Due today at " + start}
        return one(start, days, i["uday"], i["usod"], i["offset"])
    if k == "table":
        rnd = random.Random(i["seed"])
        members = list(Days)
        n = 0
        # calendar days: a plain week, and the days around a month end, a year end and the end of February (leap and not)
        epoch = datetime.date(1970, 1, 1)
        days = [20000 + k for k in range(7)]
        for y, m, d in ((2024, 10, 31), (2024, 12, 31), (2025, 2, 28), (2028, 2, 29), (2026, 4, 30)):
            c = (datetime.date(y, m, d) - epoch).days
            days += [c - 1, c, c + 1]
        for off in i["zones"]:
            for uday in days:
                for _ in range(max(1, i["minutes"] // 2)):
                    usod = rnd.choice([0, 60 * rnd.randrange(1440), 86399, 43200])
                    local_min = ((usod + off) // 60) % 1440
                    for size in range(0, 8):
                        for combo in itertools.combinations(members, size):
                            for sm in (local_min, (local_min + 1) % 1440, (local_min - 1) % 1440):
                                start = f"{sm // 60:02d}:{sm % 60:02d}"
                                r = one(start, set(combo), uday, usod, off)
                                n += 1
                                if not r["ok"]:
                                    r.update(evaluations=n, case={"prop": "C13", "kind": "one", "inputs": {
                                        "start": start, "days": canon(set(combo)), "uday": uday, "usod": usod, "offset": off}})
                                    return r
        return {"ok": True, "evaluations": n}
    raise ValueError(k)
