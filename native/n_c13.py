import datetime
import itertools
import random

import aioswitcher.schedule.tools as tools
from aioswitcher.schedule import Days
from contracts import spec
from .codec import dec, canon
from .common import compare


class patched_clock:
    """replaces the module's datetime class by one whose now()/utcnow() return fixed instants"""
    def __init__(self, utc, offset_s):
        self.utc, self.off = utc, offset_s

    def __enter__(self):
        utc, local = self.utc, self.utc + datetime.timedelta(seconds=self.off)

        class FakeDT(datetime.datetime):
            @classmethod
            def utcnow(cls):
                return cls(utc.year, utc.month, utc.day, utc.hour, utc.minute, utc.second)

            @classmethod
            def now(cls, tz=None):
                assert tz is None
                return cls(local.year, local.month, local.day, local.hour, local.minute, local.second)
        self.saved = tools.datetime
        tools.datetime = FakeDT
        return local

    def __exit__(self, *a):
        tools.datetime = self.saved


def one(start, days, uday, usod, offset):
    utc = datetime.datetime(1970, 1, 1) + datetime.timedelta(days=uday, seconds=usod)
    with patched_clock(utc, offset) as local:
        cw, cm = local.weekday(), local.hour * 60 + local.minute
        return compare(lambda: tools.pretty_next_run(start, days), lambda: spec.next_run_spec(start, days, cw, cm))


def run_case(c):
    k, i = c["kind"], c["inputs"]
    if k in ("one", "canary"):
        start, days = dec(i["start"]), dec(i["days"])
        if k == "canary":
            utc = datetime.datetime(1970, 1, 1) + datetime.timedelta(days=i["uday"], seconds=i["usod"])
            with patched_clock(utc, i["offset"]):
                return {"ok": tools.pretty_next_run(start, days) == "Due today at " + start}
        return one(start, days, i["uday"], i["usod"], i["offset"])
    if k == "ticking":
        # a clock that advances with every reading, started just before a local midnight / minute / hour change: the text must be right
        # for SOME instant between the first and the last reading (code that reads the clock twice can combine yesterday's weekday
        # with today's time of day)
        members = list(Days)
        n = 0
        for (y, mo, d) in ((2026, 3, 1), (2026, 3, 2), (2026, 12, 31), (2027, 1, 3)):
            for (hh, mm, ss) in ((23, 59, 59), (11, 59, 59), (6, 29, 59)):
                for sel in ([], [0], [1], [6], [0, 6], [2, 3], [0, 1, 2, 3, 4, 5, 6]):
                    for start in ("00:00", "00:01", "06:30", "12:00", "23:59"):
                        base = datetime.datetime(y, mo, d, hh, mm, ss, 999500)
                        reads = []

                        class Ticking(datetime.datetime):
                            @classmethod
                            def now(cls, tz=None):
                                t = base + datetime.timedelta(milliseconds=len(reads))
                                reads.append(t)
                                return cls(t.year, t.month, t.day, t.hour, t.minute, t.second, t.microsecond)

                            @classmethod
                            def utcnow(cls):
                                return cls.now()
                        days = {members[j] for j in sel}
                        saved = tools.datetime
                        tools.datetime = Ticking
                        try:
                            got = tools.pretty_next_run(start, set(days))
                        finally:
                            tools.datetime = saved
                        n += 1
                        instants = reads or [base]
                        span = [instants[0], instants[-1]] + ([datetime.datetime(instants[-1].year, instants[-1].month, instants[-1].day, instants[-1].hour, instants[-1].minute)] if len(instants) > 1 else [])
                        ok = any(got == spec.next_run_spec(start, set(days), t.weekday(), t.hour * 60 + t.minute) for t in span if instants[0] <= t <= instants[-1] or t in instants)
                        if not ok:
                            return {"ok": False, "evaluations": n, "detail": f"clock read {len(reads)} time(s) from {instants[0]} on: text {got!r} is right for no instant between the readings",
                                    "inputs": {"start": start, "days": sorted(x.name for x in days)}}
        return {"ok": True, "evaluations": n}
    if k == "table":
        rnd = random.Random(i["seed"])
        members = list(Days)
        n = 0
        # calendar days: a plain week, and the days around a month end, a year end and the end of February (leap and not)
        epoch = datetime.date(1970, 1, 1)
        days = [20000 + k for k in range(7)]
        for y, m, d in ((2024, 10, 31), (2024, 12, 31), (2025, 2, 28), (2028, 2, 29), (2026, 4, 30)):
            c = (datetime.date(y, m, d) - epoch).days
            days += [c - 1, c, c + 1]
        for off in i["zones"]:
            for uday in days:
                for _ in range(max(1, i["minutes"] // 2)):
                    usod = rnd.choice([0, 60 * rnd.randrange(1440), 86399, 43200])
                    local_min = ((usod + off) // 60) % 1440
                    for size in range(0, 8):
                        for combo in itertools.combinations(members, size):
                            for sm in (local_min, (local_min + 1) % 1440, (local_min - 1) % 1440):
                                start = f"{sm // 60:02d}:{sm % 60:02d}"
                                r = one(start, set(combo), uday, usod, off)
                                n += 1
                                if not r["ok"]:
                                    r.update(evaluations=n, case={"prop": "C13", "kind": "one", "inputs": {
                                        "start": start, "days": canon(set(combo)), "uday": uday, "usod": usod, "offset": off}})
                                    return r
                    # starts far from now, in the spellings the %H:%M format also accepts (no leading zeros): '9:00', '7:5', '0:30'
                    for combo in ([], [members[(uday + 3) % 7]], members[:], [members[rnd.randrange(7)], members[rnd.randrange(7)]]):
                        for sm in ((local_min + 510) % 1440, (local_min - 510) % 1440, 30, 545, 425):
                            for start in (f"{sm // 60}:{sm % 60:02d}", f"{sm // 60}:{sm % 60}", f"{sm // 60:02d}:{sm % 60}"):
                                r = one(start, set(combo), uday, usod, off)
                                n += 1
                                if not r["ok"]:
                                    r.update(evaluations=n, case={"prop": "C13", "kind": "one", "inputs": {
                                        "start": start, "days": canon(set(combo)), "uday": uday, "usod": usod, "offset": off}})
                                    return r
        return {"ok": True, "evaluations": n}
    raise ValueError(k)
